//! Second engine (Kani / CBMC) for the pointer-free leaf units behind C02 / C13 / C14 / C05.
//! These proofs do not decide any property on their own; they cross-check the leaf invariants the mirsym checks rely on
//! ("every seam formatter returns a range of blanks around the position", "the finders return a line break"), on the real
//! compiled code with an independent trusted base.
#![allow(dead_code)]

#[cfg(kani)]
mod proofs {
    use chiritori::code::formatter::empty_line_remover::EmptyLineRemover;
    use chiritori::code::formatter::indent_remover::IndentRemover;
    use chiritori::code::formatter::next_line_break_remover::NextLineBreakRemover;
    use chiritori::code::formatter::prev_line_break_remover::PrevLineBreakRemover;
    use chiritori::code::formatter::Formatter;
    use chiritori::code::utils::line_break_pos_finder::{find_next_line_break_pos, find_prev_line_break_pos};

    const N: usize = 7;

    /// an ASCII text of N bytes over an alphabet that contains everything the formatters distinguish
    fn any_ascii() -> [u8; N] {
        let a: [u8; N] = kani::any();
        let mut i = 0;
        while i < N {
            kani::assume(a[i] == b' ' || a[i] == b'\t' || a[i] == b'\n' || a[i] == b'x');
            i += 1;
        }
        a
    }

    fn is_blank(b: u8) -> bool {
        b == b' ' || b == b'\t' || b == b'\n'
    }

    fn check_range(bytes: &[u8; N], pos: usize, r: (usize, usize)) {
        let (s, e) = r;
        assert!(s <= pos && pos <= e && e <= N, "range must contain the position and stay inside the text");
        let mut i = 0;
        while i < N {
            if s <= i && i < e {
                assert!(is_blank(bytes[i]), "a seam formatter may only cover blanks");
            }
            i += 1;
        }
    }

    #[kani::proof]
    #[kani::unwind(10)]
    fn indent_remover_covers_only_blanks() {
        let a = any_ascii();
        let pos: usize = kani::any();
        kani::assume(pos <= N);
        let s = unsafe { std::str::from_utf8_unchecked(&a) };
        check_range(&a, pos, IndentRemover {}.format(s, pos));
    }

    #[kani::proof]
    #[kani::unwind(10)]
    fn empty_line_remover_covers_only_blanks() {
        let a = any_ascii();
        let pos: usize = kani::any();
        kani::assume(pos <= N);
        let s = unsafe { std::str::from_utf8_unchecked(&a) };
        check_range(&a, pos, EmptyLineRemover {}.format(s, pos));
    }

    #[kani::proof]
    #[kani::unwind(10)]
    fn prev_line_break_remover_covers_only_blanks() {
        let a = any_ascii();
        let pos: usize = kani::any();
        kani::assume(pos <= N);
        let s = unsafe { std::str::from_utf8_unchecked(&a) };
        check_range(&a, pos, PrevLineBreakRemover {}.format(s, pos));
    }

    #[kani::proof]
    #[kani::unwind(10)]
    fn next_line_break_remover_covers_only_blanks() {
        let a = any_ascii();
        let pos: usize = kani::any();
        kani::assume(pos <= N);
        let s = unsafe { std::str::from_utf8_unchecked(&a) };
        check_range(&a, pos, NextLineBreakRemover {}.format(s, pos));
    }

    #[kani::proof]
    #[kani::unwind(10)]
    fn finders_return_line_breaks() {
        let a = any_ascii();
        let pos: usize = kani::any();
        let pause: bool = kani::any();
        kani::assume(pos <= N);
        let s = unsafe { std::str::from_utf8_unchecked(&a) };
        if let Some(p) = find_prev_line_break_pos(s, &a, pos, pause) {
            assert!(p < pos && a[p] == b'\n');
            if pause {
                let mut i = 0;
                while i < N {
                    if p < i && i < pos {
                        assert!(a[i] == b' ' || a[i] == b'\t');
                    }
                    i += 1;
                }
            }
        }
        if let Some(p) = find_next_line_break_pos(s, &a, pos, pause) {
            assert!(p >= pos && p < N && a[p] == b'\n');
        }
        kani::cover!(find_prev_line_break_pos(s, &a, pos, pause) == Some(0), "a line break at byte 0 is found");
    }
}
