"""(Re)build everything a check needs from /repo's *current working tree*: the MIR dump (nightly rustc) and the
native observer (stable toolchain, dev + release). A content hash of the inputs short-cuts repeated builds."""
import os, sys, subprocess, hashlib, glob, fcntl, time, shutil

VERIF = os.path.dirname(os.path.dirname(os.path.abspath(__file__)))
REPO = os.environ.get('VERIF_REPO', '/repo')
BUILD = os.environ.get('VERIF_BUILD', os.path.join(VERIF, '.build'))
ENV = dict(os.environ, CARGO_NET_OFFLINE='true')


def tree_hash():
    h = hashlib.sha256()
    files = sorted(glob.glob(REPO + '/chiritori/**/*', recursive=True) + glob.glob(REPO + '/chiritori-cli/**/*', recursive=True)
                   + [REPO + '/Cargo.toml', REPO + '/Cargo.lock'] + glob.glob(VERIF + '/native/src/*') + [VERIF + '/native/Cargo.toml'])
    for f in files:
        if os.path.isfile(f) and '/target/' not in f:
            h.update(f.encode())
            h.update(open(f, 'rb').read())
    return h.hexdigest()


class BuildError(Exception):
    pass


def run(cmd, cwd, out=None):
    r = subprocess.run(cmd, cwd=cwd, env=ENV, stdout=subprocess.PIPE if out is None else open(out, 'wb'), stderr=subprocess.PIPE)
    if r.returncode != 0:
        raise BuildError(' '.join(cmd) + '\n' + r.stderr.decode(errors='replace')[-3000:])
    return r


def ensure(log=print, cli=False):
    os.makedirs(BUILD, exist_ok=True)
    lock = open(os.path.join(BUILD, '.lock'), 'w')
    fcntl.flock(lock, fcntl.LOCK_EX)
    try:
        h = tree_hash()
        stamp = os.path.join(BUILD, 'stamp')
        paths = dict(cli_mir=os.path.join(BUILD, 'cli.mir'), cli_bin=os.path.join(BUILD, 'cli/debug/chiritori'), mir=os.path.join(BUILD, 'lib.mir'), native_dev=os.path.join(BUILD, 'native/debug/native_obs'),
                     native_rel=os.path.join(BUILD, 'native/release/native_obs'), hash=h, repo=REPO,
                     src=os.path.join(REPO, 'chiritori/src'))
        if os.path.exists(stamp) and open(stamp).read() == h and all(os.path.exists(paths[k]) for k in ('mir', 'native_dev', 'native_rel', 'cli_mir', 'cli_bin')):
            log(f'build: up to date (tree hash {h[:12]})')
            return paths
        t0 = time.time()
        # 1. MIR of the library crate, dumped in place from /repo (target dir outside /repo; the fingerprint is
        #    dropped so rustc really runs)
        for d in glob.glob(os.path.join(BUILD, 'mir/debug/.fingerprint/chiritori-*')):
            shutil.rmtree(d, ignore_errors=True)
        run(['cargo', '+nightly', 'rustc', '--offline', '--locked', '-p', 'chiritori', '--lib', '--target-dir',
             os.path.join(BUILD, 'mir'), '--', '-Zunpretty=mir', '-Ztrim-diagnostic-paths=no', '-C', 'debug-assertions=off',
             '-C', 'overflow-checks=on'], cwd=REPO, out=paths['mir'] + '.tmp')
        if os.path.getsize(paths['mir'] + '.tmp') < 1000:
            raise BuildError('empty MIR dump')
        os.replace(paths['mir'] + '.tmp', paths['mir'])
        for d in glob.glob(os.path.join(BUILD, 'mir/debug/.fingerprint/chiritori-cli-*')):
            shutil.rmtree(d, ignore_errors=True)
        run(['cargo', '+nightly', 'rustc', '--offline', '--locked', '-p', 'chiritori-cli', '--bin', 'chiritori', '--target-dir',
             os.path.join(BUILD, 'mir'), '--', '-Zunpretty=mir', '-Ztrim-diagnostic-paths=no', '-C', 'debug-assertions=off',
             '-C', 'overflow-checks=on'], cwd=REPO, out=paths['cli_mir'] + '.tmp')
        os.replace(paths['cli_mir'] + '.tmp', paths['cli_mir'])
        # the real command-line binary (stable toolchain) for the native differential of C20
        run(['cargo', 'build', '--offline', '--locked', '-p', 'chiritori-cli', '--target-dir', os.path.join(BUILD, 'cli')], cwd=REPO)
        # 2. native observer, both profiles
        # the observer crate is instantiated under .build with the repository path in use (VERIF_REPO overrides /repo)
        nat = os.path.join(BUILD, 'native-src')
        shutil.rmtree(nat, ignore_errors=True)
        shutil.copytree(os.path.join(VERIF, 'native'), nat, ignore=shutil.ignore_patterns('Cargo.lock', 'target'))
        toml = open(os.path.join(nat, 'Cargo.toml')).read().replace('/repo/chiritori', os.path.join(REPO, 'chiritori'))
        open(os.path.join(nat, 'Cargo.toml'), 'w').write(toml)
        shutil.copy(os.path.join(REPO, 'Cargo.lock'), os.path.join(nat, 'Cargo.lock'))
        run(['cargo', 'build', '--offline', '--target-dir', os.path.join(BUILD, 'native')], cwd=nat)
        run(['cargo', 'build', '--offline', '--release', '--target-dir', os.path.join(BUILD, 'native')], cwd=nat)
        open(stamp, 'w').write(h)
        log(f'build: MIR dump + native observer rebuilt from {REPO} in {time.time() - t0:.1f}s (tree hash {h[:12]})')
        return paths
    finally:
        fcntl.flock(lock, fcntl.LOCK_UN)


if __name__ == '__main__':
    try:
        print(ensure())
    except BuildError as e:
        print('BUILD FAILED', e)
        sys.exit(2)
