"""./check <property> [--tier quick|thorough] [--replay FILE]   (see DESIGN.md §3)"""
import os, sys, json, time, argparse, hashlib, traceback

HERE = os.path.dirname(os.path.abspath(__file__))
sys.path.insert(0, HERE)
VERIF = os.path.dirname(HERE)

import build
import engine
from engine import Violation, PathAbort
import models
import impl as implmod
import explore
from harness import HARNESSES, ConcCtx, show
import registry

PROP_MODULES = ['props_front', 'props_pipe', 'props_list', 'props_time', 'props_cli']


def log(*a):
    print(*a, flush=True)


def load_known():
    known, fixed = [], []
    p = os.path.join(VERIF, 'known-findings.txt')
    if os.path.exists(p):
        for ln in open(p):
            ln = ln.strip()
            if ln.startswith('finding:'):
                kv = dict(x.split('=', 1) for x in ln[len('finding:'):].split() if '=' in x)
                known.append(dict(property=kv.get('property'), role=kv.get('role'), text=ln))
            elif ln.startswith('fixed:'):
                fixed.append(ln)
    return known, fixed


def native_replay(rec, paths, profile='dev'):
    nat = implmod.NativeImpl(paths['native_dev' if profile == 'dev' else 'native_rel'])
    nat.tz = rec['params'].get('tz') if isinstance(rec.get('params'), dict) else None   # the job's process time zone, if it asks for one
    import cli
    nat.cli = cli.NativeCli(paths['cli_bin'])
    try:
        return explore.native_replay(rec['harness'], rec['params'], rec['values'], nat)
    finally:
        nat.close()


def describe_values(values):
    out = {}
    for k, v in values.items():
        out[k] = show(v) if isinstance(v, list) else v
    return out


def main():
    ap = argparse.ArgumentParser()
    ap.add_argument('prop')
    ap.add_argument('--tier', default=os.environ.get('VERIF_TIER', 'quick'))
    ap.add_argument('--replay')
    ap.add_argument('--workers', type=int, default=int(os.environ.get('VERIF_WORKERS', '16')))
    ap.add_argument('--only', help='substring filter on job labels (debugging)')
    a = ap.parse_args()
    seed = int(os.environ.get('VERIF_SEED', '0') or 0)
    t0 = time.time()
    prop = a.prop
    for m in PROP_MODULES:
        try:
            __import__(m)
        except ModuleNotFoundError as e:
            if m not in str(e):
                raise
    try:
        paths = build.ensure(log)
    except build.BuildError as e:
        log('BUILD-FAILED (the check cannot run; this is not a verdict about the property)')
        log(str(e))
        return 2

    if a.replay:
        rec = json.load(open(a.replay))
        for prof in ('dev', 'release'):
            st, msg, role = native_replay(rec, paths, prof)
            log(f'replay[{prof}] {rec["harness"]} {describe_values(rec["values"])}: {st} {msg}')
        return 1 if st in ('violation', 'panic') else 0

    spec = registry.PROPS[prop]
    jobs = spec['jobs'](a.tier, seed)
    if a.only:
        jobs = [j for j in jobs if a.only in j['label']]
    known, _fixed = load_known()
    known = [k for k in known if k['property'] == prop]
    log(f'{prop} tier={a.tier} seed={seed}: {len(jobs)} jobs, {a.workers} workers')

    # ---- translator validation on concrete inputs (every run) ----
    import tv
    tv_res = tv.concrete_differential(paths, spec.get('tv', ('front',)), seed, log)
    if tv_res['mismatches']:
        log('ENCODING-DISAGREEMENT: the MIR interpreter and the native build differ on concrete inputs; no verdict')
        for mm in tv_res['mismatches'][:3]:
            log('  ' + json.dumps(mm)[:1500])
        return 2

    # second engine (thorough tier only): Kani / CBMC proofs of the leaf invariants this property leans on
    kani_thread, kani_res = None, {}
    if a.tier == 'thorough' and spec.get('kani'):
        import threading
        kani_thread = threading.Thread(target=run_kani, args=(spec['kani'], kani_res, log))
        kani_thread.start()

    deadline = spec.get('deadline', {}).get(a.tier, 900 if a.tier == 'quick' else 3600)   # generous: on a loaded machine a quick run may take several times its usual 10-100 s
    init_args = (paths['mir'], paths['repo'], paths['src'], paths['native_dev'], PROP_MODULES_PRESENT(), [k['role'] for k in known], paths if spec.get('cli') else None)
    states, funcs_hit, models_hit = explore.run_jobs(jobs, init_args, nworkers=a.workers, deadline_s=deadline,
                                                     validate_every=spec.get('validate_every', {}).get(a.tier, 20), seed=seed, log=log)

    if kani_thread is not None:
        kani_thread.join()
    # ---- verdict ----
    os.makedirs(os.path.join(VERIF, 'replays'), exist_ok=True)
    violations, known_hits, disagreements = [], {}, []
    seen = set()
    for s in states:
        for v in s.violations:
            key = (v['harness'], v['role'], v['msg'][:60])
            if key in seen:
                continue
            seen.add(key)
            st, msg, role = native_replay(v, paths, 'dev')
            st_rel, msg_rel, _ = native_replay(v, paths, 'release')
            if st == 'pass' and st_rel == 'pass':
                disagreements.append(dict(v, native='pass'))
                continue
            role = role or v['role']
            kn = [k for k in known if k['role'] == role]
            if kn:
                known_hits.setdefault(role, dict(text=kn[0]['text'], example=describe_values(v['values']), n=0))['n'] += 1
                continue
            h = hashlib.sha1(json.dumps(v, sort_keys=True, default=str).encode()).hexdigest()[:10]
            rp = os.path.join(VERIF, 'replays', f'{prop}-{h}.json')
            json.dump(dict(property=prop, harness=v['harness'], params=v['params'], values=v['values'], msg=v['msg'], role=role,
                           native_dev=f'{st}: {msg}', native_release=f'{st_rel}: {msg_rel}'), open(rp, 'w'), indent=1)
            violations.append(dict(replay=rp, msg=v['msg'], role=role, input=describe_values(v['values']), native_dev=st, native_release=st_rel))
    for s in states:
        for role, k in s.known.items():
            kn = [x for x in known if x['role'] == role]
            d = known_hits.setdefault(role, dict(text=kn[0]['text'], example=describe_values(k['example']['values']), n=0))
            d['n'] += k['n']
    tv_mis = [m for s in states for m in s.tv_mismatch]

    # cover points (vacuity guard): every label declared by the harnesses that ran must have been reached
    declared = set()
    for j in jobs:
        declared |= set(HARNESSES[j['harness']].covers)
    reached = set()
    for s in states:
        reached |= s.covers
    missing = sorted(declared - reached - set(spec.get('covers_optional', {}).get(a.tier, ())))

    total_paths = sum(s.paths for s in states)
    unenc = {}
    for s in states:
        for k, v in s.unencoded.items():
            unenc[k] = unenc.get(k, 0) + v
    panics = [p for s in states for p in s.panics]
    complete = [s for s in states if s.done and not s.abandoned]
    samples = []
    for s in states:
        for x in s.samples[:2]:
            samples.append(dict(job=s.job['label'], input=x, verdict='all checks discharged; native observables identical'))
    if not samples:
        samples = [dict(job=s.job['label'], note='no path of this job was sampled for native replay') for s in states[:2]]
    ev = dict(
        property_id=prop, tier=a.tier, seed=seed, level='model_checking',
        coverage=dict(
            states=total_paths, transitions=sum(s.branches for s in states) + total_paths,
            traces_validated_against_impl=sum(s.validated for s in states) + tv_res['n'],
            obligations=sum(s.nchecks for s in states), discharged=sum(s.ndischarged for s in states),
            samples=samples[:12],
            exhaustive=False,
            explanation=spec['explanation'],
            jobs=[s.summary() for s in states],
            bounds_completed=[s.job['label'] for s in complete],
            bounds_not_completed=[s.job['label'] for s in states if s not in complete],
            jobs_without_feasible_path=[s.job['label'] for s in states if s.done and s.paths == 0],
            functions_encoded=sorted(funcs_hit), std_models_used=sorted(models_hit), mir_dump_sha256=hashlib.sha256(open(paths['mir'], 'rb').read()).hexdigest(),
            tree_hash=paths['hash'], unencoded_paths=unenc, unencoded_paths_sampled_natively=sum(getattr(s, 'unencoded_sampled', 0) for s in states), panicking_paths=sum(s.by_status.get('panic', 0) for s in states),
            panic_examples=[dict(msg=p['msg'], input=describe_values(p['values'] or {})) for p in panics[:3]],
            cover_points=dict(declared=sorted(declared), reached=sorted(reached & declared), missing=missing),
            solver='z3 ' + __import__('z3').get_version_string(), solver_calls=sum(s.solver_calls for s in states),
            solver_time_s=round(sum(s.solver_time for s in states), 1),
            concrete_differential=dict(inputs=tv_res['n'], mismatches=0, families=list(spec.get('tv', ('front',)))),
            encoding_disagreements=len(disagreements) + len(tv_mis),
            known_findings=[dict(role=k, **v) for k, v in known_hits.items()],
            kani=kani_res or None,
            violations=violations[:10]),
        assumptions=spec['assumptions'], wall_s=round(time.time() - t0, 1), violations=len(violations))
    evdir = os.environ.get('VERIF_EVIDENCE_DIR', os.path.join(VERIF, 'evidence'))  # the sweep tools redirect this; the checks never do
    os.makedirs(evdir, exist_ok=True)
    json.dump(ev, open(os.path.join(evdir, prop + '.json'), 'w'), indent=1, default=str)

    for role, kh in known_hits.items():
        log(f"KNOWN-FINDING: property={prop} role={role} e.g. {json.dumps(kh['example'], ensure_ascii=False)} ({kh['n']} counterexamples)")
    log(f'{prop}: {total_paths} paths, {ev["coverage"]["obligations"]} obligations ({ev["coverage"]["discharged"]} discharged), '
        f'{len(complete)}/{len(states)} jobs complete, {ev["coverage"]["traces_validated_against_impl"]} native validations, '
        f'unencoded {sum(unenc.values())}, panicking paths {ev["coverage"]["panicking_paths"]}, {ev["wall_s"]}s')
    empty = [s.job['label'] for s in states if s.done and s.paths == 0]
    if empty:
        log(f'NO-FEASIBLE-PATH: {len(empty)} job(s) explored nothing (their assumptions contradict each other): ' + '; '.join(empty[:4]) + (' ...' if len(empty) > 4 else ''))
    if unenc:
        for k, v in list(unenc.items())[:5]:
            log(f'  unencoded x{v}: {k}')
        ns = sum(getattr(s, 'unencoded_sampled', 0) for s in states)
        log(f'UNENCODED: {sum(unenc.values())} paths reached code the encoder has no model for; {ns} of them were sampled natively (one '
            f'representative each, passed). The solver verdict covers the encoded paths only: inconclusive, exit 2')
    rc = 0
    if violations:
        for v in violations:
            log(f"VIOLATION property={prop} replay={v['replay']}")
            log(f"  {v['msg']}  input={json.dumps(v['input'], ensure_ascii=False)} native: dev={v['native_dev']} release={v['native_release']}")
        rc = 1
    if disagreements or tv_mis:
        log(f'ENCODING-DISAGREEMENT: {len(disagreements)} counterexample(s) did not reproduce natively, {len(tv_mis)} path(s) with different observables')
        for d in disagreements[:3]:
            log('  not reproduced: ' + d['msg'] + ' ' + json.dumps(describe_values(d['values']), ensure_ascii=False))
        for d in tv_mis[:3]:
            log('  observables differ: ' + json.dumps(d)[:1200])
        rc = rc or 2
    if missing and not violations:
        log(f'VACUITY: cover points never reached: {missing} (broken check, no verdict)')
        rc = rc or 2
    if not complete:
        log('NO JOB COMPLETED (no verdict)')
        rc = rc or 2
    if unenc:
        rc = rc or 2
    if empty and not violations:
        rc = rc or 2      # a job whose assumptions are unsatisfiable is a broken job: nothing it was meant to cover was covered
    if kani_res and kani_res.get('failed'):
        log(f"KANI-FAILED: {kani_res['failed']} (second engine disagrees on a leaf invariant; see evidence.kani) - no verdict from this run")
        rc = rc or 2
    nerr = sum(s.by_status.get('error', 0) for s in states)
    if nerr:
        log(f'ENGINE-ERROR: {nerr} paths ended in a harness/engine exception (broken check, no verdict)')
        rc = rc or 2
    return rc


def run_kani(harnesses, res, log):
    """cargo kani on /verif/kani (instantiated under .build with the repository path in use); SUCCESSFUL is required per harness"""
    import subprocess, shutil, re
    t0 = time.time()
    src = os.path.join(build.BUILD, 'kani-src')
    shutil.rmtree(src, ignore_errors=True)
    shutil.copytree(os.path.join(VERIF, 'kani'), src, ignore=shutil.ignore_patterns('Cargo.lock', 'target'))
    toml = open(os.path.join(src, 'Cargo.toml')).read().replace('/repo/chiritori', os.path.join(build.REPO, 'chiritori'))
    open(os.path.join(src, 'Cargo.toml'), 'w').write(toml)
    shutil.copy(os.path.join(build.REPO, 'Cargo.lock'), os.path.join(src, 'Cargo.lock'))
    res.update(harnesses={}, failed=[], engine='cargo kani 0.68 / CBMC 6.11 (cadical)', bounds='ASCII texts of 7 bytes over {blank, tab, line break, x}, every position 0..=7, unwind 10')
    for h in harnesses:
        cmd = ['cargo', 'kani', '--target-dir', os.path.join(build.BUILD, 'kani'), '--output-format', 'terse', '--harness', h]
        try:
            r = subprocess.run(['bash', '-c', 'ulimit -v 16000000; exec "$@"', 'x'] + cmd, cwd=src, env=dict(os.environ, CARGO_NET_OFFLINE='true'),
                               stdout=subprocess.PIPE, stderr=subprocess.STDOUT, timeout=1500)
            out = r.stdout.decode(errors='replace')
            okv = 'VERIFICATION:- SUCCESSFUL' in out and 'Complete - 1 successfully verified harnesses, 0 failures' in out
            m = re.search(r'Verification Time: ([0-9.]+)s', out)
            res['harnesses'][h] = dict(status='SUCCESSFUL' if okv else ('FAILED' if 'VERIFICATION:- FAILED' in out else 'NOT-DISCHARGED'),
                                       cbmc_time_s=float(m.group(1)) if m else None, tail=out.strip().split('\n')[-3:] if not okv else None)
            if 'VERIFICATION:- FAILED' in out:
                res['failed'].append(h)
        except subprocess.TimeoutExpired:
            res['harnesses'][h] = dict(status='NOT-DISCHARGED', note='timeout 1500 s')
        log(f"  kani {h}: {res['harnesses'][h]['status']} ({res['harnesses'][h].get('cbmc_time_s')} s)")
    res['wall_s'] = round(time.time() - t0, 1)


def PROP_MODULES_PRESENT():
    return [m for m in PROP_MODULES if os.path.exists(os.path.join(HERE, m + '.py'))]


if __name__ == '__main__':
    try:
        rc = main()
    except SystemExit:
        raise
    except BaseException:
        traceback.print_exc()
        print('ENGINE-ERROR: the check itself failed (e.g. a MIR form the parser does not know); no verdict', flush=True)
        rc = 2
    sys.exit(rc)
