"""Environment stub for chrono 0.4.38 (DESIGN.md §4.4): DateTime::parse_from_str for the strftime items
%Y %m %d %H %M %S %z, literals and blanks, written from chrono's format/parse.rs + format/scan.rs, and the
instant comparison.  Bytes of the parsed string may be symbolic: digit-ness / sign / blank tests fork, numeric
values become 32-bit terms, range checks fork, the instant is a 64-bit term.

Validated on every run against the real chrono (native differential, see check driver)."""
import z3
from engine import *
import models
from models import model, is_sym, as_str, as_bytes


def bsym(I, b, pred_sym, pred_conc):
    if is_sym(b):
        return I.branch(pred_sym(b))
    return pred_conc(b)


def is_digit(I, b):
    return bsym(I, b, lambda x: z3.And(z3.UGE(x, 48), z3.ULE(x, 57)), lambda x: 48 <= x <= 57)


def is_b(I, b, v):
    return bsym(I, b, lambda x: x == v, lambda x: x == v)


def dval(b):
    if is_sym(b):
        return z3.ZeroExt(24, b) - 48
    return b - 48


class ParseErr(Exception):
    pass


def trim_start(I, s, i):
    """str::trim_start (Unicode White_Space) from absolute offset i; returns new offset"""
    t = models.trim_generic(I, StrRef(s.buf, i, s.end), True, False)
    return t.start


def number(I, s, i, mn, mx):
    """scan::number: at least mn, at most mx ascii digits; returns (new offset, value)"""
    if s.end - i < mn:
        raise ParseErr('TOO_SHORT')
    n = 0
    k = 0
    while k < mx and i + k < s.end:
        b = s.buf[i + k]
        if not is_digit(I, b):
            if k < mn:
                raise ParseErr('INVALID')
            return i + k, n
        if k >= 9:
            raise Unsupported('chrono stub: > 9 digits')
        n = n * 10 + dval(b)
        k += 1
    return i + k, n


def in_range(I, v, lo, hi):
    if is_sym(v):
        return I.branch(z3.And(v >= lo, v <= hi))  # signed 32-bit compare
    return lo <= v <= hi


def is_leap(I, y):
    if is_sym(y):
        return I.branch(z3.And(z3.SRem(y, 4) == 0, z3.Or(z3.SRem(y, 100) != 0, z3.SRem(y, 400) == 0)))
    return y % 4 == 0 and (y % 100 != 0 or y % 400 == 0)


def days_from_civil(y, m, d):
    """Howard Hinnant's algorithm; works on python ints and on signed 32-bit terms with y > -4000"""
    sym = is_sym(y) or is_sym(m) or is_sym(d)
    if not sym:
        y -= m <= 2
        era = (y if y >= 0 else y - 399) // 400
        yoe = y - era * 400
        doy = (153 * (m + (-3 if m > 2 else 9)) + 2) // 5 + d - 1
        doe = yoe * 365 + yoe // 4 - yoe // 100 + doy
        return era * 146097 + doe - 719468
    bv = lambda x: x if is_sym(x) else z3.BitVecVal(x, 32)
    y, m, d = bv(y), bv(m), bv(d)
    y = z3.If(m <= 2, y - 1, y)
    yy = y + 4000  # shift to non-negative (4000 = 10 eras)
    era = z3.UDiv(yy, 400)
    yoe = yy - era * 400
    mp = z3.If(m > 2, m - 3, m + 9)
    doy = z3.UDiv(153 * mp + 2, 5) + d - 1
    doe = yoe * 365 + z3.UDiv(yoe, 4) - z3.UDiv(yoe, 100) + doy
    return (era - 10) * 146097 + doe - 719468


def parse_items(fmt):
    items = []
    i = 0
    while i < len(fmt):
        c = fmt[i]
        if c == '%':
            items.append(('spec', fmt[i + 1]))
            i += 2
        elif c.isspace():
            while i < len(fmt) and fmt[i].isspace():
                i += 1
            items.append(('space',))
        else:
            j = i
            while j < len(fmt) and fmt[j] != '%' and not fmt[j].isspace():
                j += 1
            items.append(('lit', fmt[i:j].encode()))
            i = j
    return items


WIDTH = {'Y': 4, 'm': 2, 'd': 2, 'H': 2, 'M': 2, 'S': 2}
RANGE = {'m': (1, 12), 'd': (1, 31), 'H': (0, 23), 'M': (0, 59), 'S': (0, 60)}


def parse_datetime(I, s, fmt):
    """returns instant (seconds since the epoch, int | 64-bit term) or raises ParseErr"""
    f = {}
    i = s.start
    for it in parse_items(fmt):
        if it[0] == 'lit':
            p = it[1]
            if s.end - i < len(p):
                raise ParseErr('TOO_SHORT')
            if not I.branch(models.bytes_eq(s.buf[i:i + len(p)], list(p))):
                raise ParseErr('INVALID')
            i += len(p)
        elif it[0] == 'space':
            i = trim_start(I, s, i)
        elif it[1] in WIDTH:
            k = it[1]
            i = trim_start(I, s, i)
            if k == 'Y':
                if i < s.end and is_b(I, s.buf[i], 45):
                    i, v = number(I, s, i + 1, 1, 1 << 30)
                    v = -v
                elif i < s.end and is_b(I, s.buf[i], 43):
                    i, v = number(I, s, i + 1, 1, 1 << 30)
                else:
                    i, v = number(I, s, i, 1, 4)
                if not in_range(I, v, -262143, 262142):
                    raise ParseErr('OUT_OF_RANGE')
            else:
                i, v = number(I, s, i, 1, WIDTH[k])
                lo, hi = RANGE[k]
                if not in_range(I, v, lo, hi):
                    raise ParseErr('OUT_OF_RANGE')
            if k in f and not I.branch(models.b_eq(f[k], v)):
                raise ParseErr('IMPOSSIBLE')
            f[k] = v
        elif it[1] == 'z':
            i = trim_start(I, s, i)
            if i >= s.end:
                raise ParseErr('TOO_SHORT')
            b = s.buf[i]
            if is_b(I, b, 43):
                neg = False
                i += 1
            elif is_b(I, b, 45):
                neg = True
                i += 1
            elif i + 3 <= s.end and I.branch(models.bytes_eq(s.buf[i:i + 3], [0xE2, 0x88, 0x92])):
                neg = True
                i += 3
            else:
                raise ParseErr('INVALID')
            if s.end - i < 2:
                raise ParseErr('TOO_SHORT')
            if not (is_digit(I, s.buf[i]) and is_digit(I, s.buf[i + 1])):
                raise ParseErr('INVALID')
            hours = dval(s.buf[i]) * 10 + dval(s.buf[i + 1])
            i += 2
            # colon_or_space: trim_start_matches(|c| c == ':' || c.is_whitespace())
            while i < s.end:
                c, w = models.decode_at(I, s, i)
                if I.branch(models.b_eq(c, 58)) or models.is_ws_char(I, c):
                    i += w
                else:
                    break
            if s.end - i < 2:
                raise ParseErr('TOO_SHORT')
            m1, m2 = s.buf[i], s.buf[i + 1]
            if bsym(I, m1, lambda x: z3.And(z3.UGE(x, 48), z3.ULE(x, 53)), lambda x: 48 <= x <= 53) and is_digit(I, m2):
                minutes = dval(m1) * 10 + dval(m2)
            elif is_digit(I, m1) and is_digit(I, m2):
                raise ParseErr('OUT_OF_RANGE')
            else:
                raise ParseErr('INVALID')
            i += 2
            off = hours * 3600 + minutes * 60
            f['z'] = -off if neg else off
        else:
            raise Unsupported('chrono stub: %' + it[1])
    if i != s.end:
        raise ParseErr('TOO_LONG')
    for k in 'YmdHMSz':
        if k not in f:
            raise ParseErr('NOT_ENOUGH')
    y, m, d = f['Y'], f['m'], f['d']
    # day must exist in that month
    if is_sym(m) or is_sym(d) or is_sym(y):
        bv = lambda x: x if is_sym(x) else z3.BitVecVal(x, 32)
        if in_range(I, d, 29, 31):
            if I.branch(bv(m) == 2):
                if not (is_leap(I, y) and I.branch(bv(d) == 29)):
                    raise ParseErr('OUT_OF_RANGE')
            elif I.branch(bv(d) == 31):
                if I.branch(z3.Or(*[bv(m) == x for x in (4, 6, 9, 11)])):
                    raise ParseErr('OUT_OF_RANGE')
    else:
        dim = [31, 29 if is_leap(I, y) else 28, 31, 30, 31, 30, 31, 31, 30, 31, 30, 31][m - 1]
        if d > dim:
            raise ParseErr('OUT_OF_RANGE')
    off = f['z']
    if not in_range(I, off, -86399, 86399):
        raise ParseErr('OUT_OF_RANGE')
    S = f['S']
    if is_sym(S):
        # decide "leap second" under the path condition (one branch) so that the instant stays a plain term
        if I.branch(S == 60):
            S = 60
        else:
            return instant_of(y, m, d, f['H'], f['M'], S, off, no_leap=True)
    return instant_of(y, m, d, f['H'], f['M'], S, off)


def instant_of(y, m, d, H, M, S, off, no_leap=False):
    """(seconds since the epoch, frac) of a civil date-time at a UTC offset.  A leap second hh:mm:60 is the instant strictly
    between :59 and the next :00 (chrono keeps it as :59 + 1e9 ns and does not normalise): (:59, frac=True)."""
    days = days_from_civil(y, m, d)
    if is_sym(S) and no_leap:
        frac = False
        sec = S
    elif is_sym(S):
        frac = z3.simplify(S == 60)
        if z3.is_false(frac):
            frac = False
        sec = S if frac is False else z3.If(frac, z3.BitVecVal(59, 32), S)
    else:
        frac = S == 60
        sec = min(S, 59)
    tod = H * 3600 + M * 60 + sec
    if is_sym(days) or is_sym(tod) or is_sym(off):
        w = lambda x: z3.SignExt(32, x) if is_sym(x) else z3.SignExt(32, z3.BitVecVal(x, 32))
        return z3.simplify(w(days) * 86400 + w(tod) - w(off)), frac
    return days * 86400 + tod - off, frac


@model('chrono::DateTime::parse_from_str')
def _(I, a):
    s = as_str(a[0])
    fb = as_bytes(a[1])
    if any(is_sym(b) for b in fb):
        raise Unsupported('symbolic format string')
    try:
        secs, frac = parse_datetime(I, s, bytes(fb).decode())
    except ParseErr as e:
        return err(Opaque('chrono_parse_error', what=str(e)))
    if is_sym(frac) and z3.is_true(frac):
        frac = True
    elif is_sym(frac) and z3.is_false(frac):
        frac = False
    return ok(Opaque('instant', secs=secs, frac=frac))


def mk_instant(secs, nanos=0):
    """an instant = (seconds since the epoch, leap flag `frac`, sub-second nanoseconds 0..999_999_999); ordered lexicographically"""
    return Opaque('instant', secs=secs, frac=False, nanos=nanos)


def _subsec(I, a, up):
    """SubsecRound::{trunc,round}_subsecs(0) on an instant (chrono 0.4.38 round.rs: delta_down = ns % 10^9; round goes up when
    10^9 - delta_down <= delta_down).  Other digit counts and leap-second instants are outside the stub."""
    x, digits = a[0], a[1]
    if is_sym(digits) or digits != 0 or getattr(x, 'frac', False) is not False:
        raise Unsupported('subsec rounding outside the stub (digits != 0 or leap second)')
    ns = getattr(x, 'nanos', 0)
    if not is_sym(ns):
        return Opaque('instant', secs=x.secs + (1 if up and ns >= 500_000_000 else 0), frac=False, nanos=0)
    if not up:
        return Opaque('instant', secs=x.secs, frac=False, nanos=0)
    if I.branch(z3.UGE(ns, z3.BitVecVal(500_000_000, ns.size()))):
        return Opaque('instant', secs=x.secs + 1, frac=False, nanos=0)
    return Opaque('instant', secs=x.secs, frac=False, nanos=0)


@model('<chrono::DateTime as chrono::SubsecRound>::round_subsecs')
def _(I, a):
    return _subsec(I, a, True)


@model('<chrono::DateTime as chrono::SubsecRound>::trunc_subsecs')
def _(I, a):
    return _subsec(I, a, False)


@model('chrono::DateTime::timestamp')
def _(I, a):
    x = a[0]
    if getattr(x, 'frac', False) is not False:
        raise Unsupported('timestamp() of a leap-second instant')
    return x.secs


@model('chrono::DateTime::timestamp_subsec_nanos', '<chrono::DateTime as chrono::Timelike>::nanosecond')
def _(I, a):
    x = a[0]
    if getattr(x, 'frac', False) is not False:
        raise Unsupported('nanosecond() of a leap-second instant')
    return getattr(x, 'nanos', 0)
