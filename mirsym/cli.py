"""C20: the command-line wrapper.  chiritori-cli's `main` is executed from its own MIR together with the derive-generated clap glue
(`command`, `augment_args`, `from_arg_matches_mut`); the library functions it calls are the library's MIR (same interpreter).

Environment stubs (DESIGN.md §4.4, every one is part of the claim):
  clap builder calls made by augment_args      -> recorded (id, long, short, action, default_value, required)
  <Args as clap::Parser>::parse                -> clap's documented contract over the recorded arguments and the job's option set:
                                                  value(s) given on the command line, else the recorded default, else absent; SetTrue flags default to false
  File::open/create, read_to_string, write_all, BufReader lines, stdin, atty::isnt, _print, process::exit -> a small in-memory file system / streams
  chrono::Local::now                           -> the job's `now`; str::parse::<DateTime<Local>> -> RFC 3339 subset via the chrono stub
clap_builder's argv parser, real process I/O and TZ handling are NOT executed symbolically; the native differential runs the real binary
(with TZ = UTC, Asia/Tokyo, America/Los_Angeles, unset) on every job."""
import os, re, subprocess, tempfile, shutil, json
import z3
import engine
from engine import *
import models
from models import EXACT, model, as_bytes, as_str, deref, clone_val
import chrono_stub
from chrono_stub import mk_instant
import impl as implmod


class ProcessExit(Exception):
    def __init__(self, code):
        self.code = code


class Env:
    def __init__(self, opts, files, stdin, tty, now):
        self.opts = opts            # long option name -> list of byte lists (values) | True (flag)
        self.files = {k: list(v) for k, v in files.items()}     # path (str) -> bytes
        self.stdin = stdin          # bytes | None
        self.tty = tty
        self.now = now
        self.stdout = []
        self.events = []            # ('open', path) ('create', path) ('read', path) ('write', path)


class ArgObj:
    def __init__(self, id_):
        self.id = id_
        self.long = None
        self.short = None
        self.action = None
        self.default = None
        self.required = False


class CmdObj:
    def __init__(self):
        self.args = []


class FileObj:
    def __init__(self, path, mode):
        self.path, self.mode, self.pos = path, mode, 0


def s_of(v):
    return bytes(as_bytes(v)).decode()


def _self(I, a):
    return a[0]


for _n in ('help', 'long_help', 'value_name', 'value_parser', 'about', 'version', 'long_about', 'group', 'next_help_heading', 'next_display_order',
           'num_args', 'hide', 'global', 'help_heading', 'display_order', 'author', 'name', 'bin_name', 'propagate_version', 'arg_required_else_help',
           'hide_default_value', 'hide_possible_values', 'hide_short_help', 'hide_long_help', 'hide_env', 'hide_env_values', 'value_hint', 'after_help', 'before_help',
           'after_long_help', 'before_long_help', 'override_usage', 'override_help', 'help_template', 'term_width', 'max_term_width', 'color', 'styles',
           'disable_colored_help', 'next_line_help', 'display_name', 'long_version', 'allow_hyphen_values', 'allow_negative_numbers'):
    EXACT['clap::Arg::' + _n] = _self
    EXACT['clap::Command::' + _n] = _self
for _n in ('args', 'multiple', 'required', 'id'):
    EXACT['clap::ArgGroup::' + _n] = _self
EXACT['clap::ArgGroup::new'] = lambda I, a: Opaque('arggroup')
EXACT['<clap::Id as std::convert::From>::from'] = lambda I, a: a[0]
EXACT['clap::builder::_infer_ValueParser_for::new'] = lambda I, a: Opaque('vp')
EXACT['<&&&&&&clap::builder::_infer_ValueParser_for as clap::builder::impl_prelude::_impls_ValueParserFactory>::value_parser'] = lambda I, a: Opaque('vp')
EXACT['clap::Command::new'] = lambda I, a: CmdObj()


@model('clap::Arg::new')
def _(I, a):
    return ArgObj(s_of(a[0]))


@model('clap::Arg::long')
def _(I, a):
    a[0].long = s_of(a[1])
    return a[0]


@model('clap::Arg::short')
def _(I, a):
    a[0].short = chr(a[1])
    return a[0]


@model('clap::Arg::action')
def _(I, a):
    act = a[1]
    a[0].action = (getattr(act, 'ty', None) or '').split('::')[-1] if not isinstance(act, Enum) else act.variant
    return a[0]


@model('clap::Arg::default_value')
def _(I, a):
    v = a[1]
    if isinstance(v, Enum):
        v = None if v.variant == 'None' else v.fields[0]
    a[0].default = None if v is None else list(as_bytes(v))
    return a[0]


@model('clap::Arg::value_delimiter')
def _(I, a):
    d = a[1]
    if isinstance(d, Enum):   # impl IntoResettable<char>
        d = None if d.variant in ('None', 'Reset') else d.fields[0]
    a[0].delimiter = d
    return a[0]


@model('clap::Arg::required')
def _(I, a):
    a[0].required = bool(a[1])
    return a[0]


@model('clap::Command::arg')
def _(I, a):
    a[0].args.append(a[1])
    return a[0]


@model('clap::ArgAction::takes_values')
def _(I, a):
    act = deref(a[0])
    name = act.variant if isinstance(act, Enum) else (getattr(act, 'ty', '') or '').split('::')[-1]
    return name in ('Set', 'Append')


class Matches:
    def __init__(self):
        self.vals = {}


@model('<Args as clap::Parser>::parse')
def _(I, a):
    env = I.env
    cmd_fn = [k for k in I.funcs if k.endswith('>::command') and 'main.rs' in k][0]
    cmd = I.call(cmd_fn, [])
    I.env.cmd = cmd
    m = Matches()
    known = set()
    for arg in cmd.args:
        key = arg.long or arg.id
        known.add(key)
        sup = env.opts.get(key)
        if arg.action in ('SetTrue', 'SetFalse'):
            m.vals[arg.id] = [bool(sup) if arg.action == 'SetTrue' else not bool(sup)]
        elif sup is not None:
            delim = getattr(arg, 'delimiter', None)
            if delim is not None:
                # clap splits every supplied value at the delimiter character
                if arg.action != 'Append' or is_sym(delim) or delim > 127:
                    raise Unsupported('value_delimiter outside the modelled cases')
                parts = []
                for v in sup:
                    cur = []
                    for b in v:
                        if I.branch(models.b_eq(b, delim)):
                            parts.append(cur)
                            cur = []
                        else:
                            cur.append(b)
                    parts.append(cur)
                sup = parts
            vals = [StringObj(list(v)) for v in sup]
            m.vals[arg.id] = vals if arg.action == 'Append' else vals[-1:]
        elif arg.default is not None:
            m.vals[arg.id] = [StringObj(list(arg.default))]
        elif arg.required:
            raise ProcessExit(2)
    for k in env.opts:
        if k not in known:
            raise ProcessExit(2)  # clap: unexpected argument
    fam = [k for k in I.funcs if k.endswith('>::from_arg_matches_mut') and 'main.rs' in k][0]
    r = I.call(fam, [Ref(Slot([m], 0))])
    if r.variant == 'Err':
        raise ProcessExit(2)
    return r.fields[0]


@model('clap::ArgMatches::remove_one')
def _(I, a):
    m = deref(a[0])
    v = m.vals.pop(s_of(a[1]), None)
    return NONE() if not v else some(v[0])


@model('clap::ArgMatches::remove_many')
def _(I, a):
    m = deref(a[0])
    v = m.vals.pop(s_of(a[1]), None)
    return NONE() if v is None else some(Iter('into_iter', lst=list(v), pos=0, end=len(v)))


@model('std::option::Option::ok_or_else')
def _(I, a):
    o = a[0]
    return ok(o.fields[0]) if o.variant == 'Some' else err(Opaque('clap_error'))


# ---- process environment
@model('atty::isnt')
def _(I, a):
    return not I.env.tty


@model('atty::is')
def _(I, a):
    return I.env.tty


@model('std::io::stdin')
def _(I, a):
    return Opaque('stdin')


@model('std::process::exit')
def _(I, a):
    raise ProcessExit(a[0])


@model('std::io::_print')
def _(I, a):
    I.env.stdout += models.render_args(I, a[0])
    return Agg()


@model('std::io::_eprint')
def _(I, a):
    return Agg()


@model('chrono::Local::now')
def _(I, a):
    return mk_instant(I.env.now)


@model('std::fs::File::open')
def _(I, a):
    p = s_of(a[0])
    I.env.events.append(('open', p))
    if p == '/dev/stdin':
        return ok(Opaque('stdin'))   # not a regular file: reads deliver standard input
    if p not in I.env.files:
        return err(Opaque('io_error'))
    return ok(FileObj(p, 'r'))


@model('std::fs::File::create')
def _(I, a):
    p = s_of(a[0])
    I.env.events.append(('create', p))
    I.env.files[p] = []
    return ok(FileObj(p, 'w'))


def read_to_string(I, a):
    f = deref(a[0])
    dst = deref(a[1])
    if isinstance(f, Opaque) and f.kind == 'stdin':
        data = I.env.stdin or []
        I.env.events.append(('read', '<stdin>'))
    else:
        data = I.env.files[f.path][f.pos:]
        f.pos = len(I.env.files[f.path])
        I.env.events.append(('read', f.path))
    dst.buf.extend(data)
    return ok(len(data))


EXACT['<std::fs::File as std::io::Read>::read_to_string'] = read_to_string
EXACT['<std::io::Stdin as std::io::Read>::read_to_string'] = read_to_string


@model('<std::fs::File as std::io::Write>::write_all', '<std::fs::File as std::io::Write>::write')
def _(I, a):
    f = deref(a[0])
    data = as_list_bytes(a[1])
    if f.mode != 'w':
        return err(Opaque('io_error'))
    cur = I.env.files[f.path]
    cur[f.pos:f.pos + len(data)] = data
    f.pos += len(data)
    I.env.events.append(('write', f.path))
    return ok(Agg()) if 'write_all' in I.cur_func else ok(len(data))


def as_list_bytes(v):
    v = deref(v)
    if isinstance(v, SliceRef):
        return list(v.lst[v.start:(len(v.lst) if v.end is None else v.end)])
    return list(as_bytes(v))


@model('std::io::read_to_string')
def _(I, a):
    dst = StringObj([])
    r = read_to_string(I, [a[0], Ref(Slot([dst], 0))])
    return ok(dst) if r.variant == 'Ok' else r


def read_line(I, a):
    f = deref(a[0])
    dst = deref(a[1])
    if isinstance(f, Opaque) and f.kind == 'stdin':
        raise Unsupported('read_line on stdin')
    data = I.env.files[f.path]
    n = 0
    while f.pos < len(data):
        b = data[f.pos]
        if is_sym(b):
            raise Unsupported('symbolic line structure in a config file')
        dst.buf.append(b)
        f.pos += 1
        n += 1
        if b == 10:
            break
    I.env.events.append(('read', f.path))
    return ok(n)


EXACT['<std::io::BufReader as std::io::BufRead>::read_line'] = read_line
EXACT['<R as std::io::BufRead>::read_line'] = read_line
EXACT['<impl BufRead as std::io::BufRead>::read_line'] = read_line


@model('std::io::BufReader::new')
def _(I, a):
    return a[0]


@model('<std::io::BufReader as std::io::BufRead>::lines')
def _(I, a):
    f = a[0]
    data = I.env.files[f.path]
    I.env.events.append(('read', f.path))
    lines = []
    cur = []
    for b in data:
        if (not is_sym(b) and b == 10):
            if cur and not is_sym(cur[-1]) and cur[-1] == 13:
                cur.pop()
            lines.append(cur)
            cur = []
        else:
            if is_sym(b):
                raise Unsupported('symbolic line structure in a config file')
            cur.append(b)
    if cur:
        lines.append(cur)
    return Iter('into_iter', lst=[ok(StringObj(l)) for l in lines], pos=0, end=len(lines))


def parse_local(I, a):
    """str::parse::<DateTime<Local>>: the subset  YYYY-MM-DD(T| )HH:MM:SS[.f][ ](Z|UTC|+HH:MM|+HHMM)  of chrono's relaxed RFC 3339 parser"""
    s = as_str(a[0])
    bs = s.bytes()
    if any(is_sym(b) for b in bs):
        raise Unsupported('symbolic --time-limited-current')
    t = bytes(bs).decode(errors='replace')
    m = re.fullmatch(r'(\d{4})-(\d\d)-(\d\d)[Tt ](\d\d):(\d\d):(\d\d)(\.\d{1,9})? ?(Z|z|UTC|utc|[+-]\d\d:?\d\d)', t)
    if not m:
        if t == '' or not re.match(r'^\d', t):
            return err(Opaque('chrono_parse_error'))
        raise Unsupported('--time-limited-current outside the modelled RFC 3339 subset: ' + t)
    y, mo, d, h, mi, sec = map(int, m.groups()[:6])
    z = m.group(8)
    nanos = int((m.group(7)[1:] + '0' * 9)[:9]) if m.group(7) else 0
    off = 0 if z in ('Z', 'z', 'UTC', 'utc') else (1 if z[0] == '+' else -1) * (int(z[1:3]) * 3600 + int(z[-2:]) * 60)
    try:
        import datetime
        datetime.datetime(y, mo, d, h, mi, min(sec, 59))
    except ValueError:
        return err(Opaque('chrono_parse_error'))
    secs, frac = chrono_stub.instant_of(y, mo, d, h, mi, sec, off)
    return ok(Opaque('instant', secs=secs, frac=frac, nanos=nanos))


_old_parse = EXACT['core::str::<impl str>::parse']


def _parse(I, a):
    if 'chrono::DateTime' in I.cur_func:
        return parse_local(I, a)
    return _old_parse(I, a)


EXACT['core::str::<impl str>::parse'] = _parse


# ---- merged crate: library + cli
def load_merged(paths):
    lib = engine.load_crate(paths['mir'], paths['repo'], paths['src'])
    cli = engine.load_crate(paths['cli_mir'], paths['repo'], os.path.join(paths['repo'], 'chiritori-cli/src'))
    for k, v in cli.funcs.items():
        assert k not in lib.funcs, k
        lib.funcs[k] = v
    lib.impls.update(cli.impls)
    lib.enums.update(cli.enums)
    lib.structs.update(cli.structs)
    lib.consts.update(cli.consts)
    lib.closure_map.update(cli.closure_map)
    lib.has_cli = True
    return lib


class MirCli:
    def __init__(self, I):
        self.I = I

    def run(self, job):
        I = self.I
        env = Env(job['opts'], job['files'], job.get('stdin'), job.get('tty', False), job.get('now', 1704067200))
        I.env = env
        code = 0
        try:
            I.call('main', [])
        except ProcessExit as e:
            code = e.code
        except RustPanic as e:
            code = 101
            env.panic = str(e)
        return dict(exit=code, stdout=list(env.stdout), files={k: list(v) for k, v in env.files.items()}, events=list(env.events),
                    panic=getattr(env, 'panic', None))


class NativeCli:
    def __init__(self, binary):
        self.binary = binary

    def run(self, job, tz='UTC'):
        d = tempfile.mkdtemp(prefix='c20-')
        try:
            for p, c in job['files'].items():
                open(os.path.join(d, p), 'wb').write(bytes(c))
            argv = [self.binary]
            for k, v in job['opts'].items():
                if v is True:
                    argv.append('--' + k)
                else:
                    for x in v:
                        argv.append('--' + k + '=' + bytes(x).decode())   # `--opt=value`: a value may begin with '-'
            env = dict(os.environ)
            if tz is None:
                env.pop('TZ', None)
            else:
                env['TZ'] = tz
            stdin = job.get('stdin')
            r = subprocess.run(argv, cwd=d, env=env, input=bytes(stdin) if stdin is not None else None,
                               stdin=None if stdin is not None else subprocess.DEVNULL, stdout=subprocess.PIPE, stderr=subprocess.PIPE, timeout=60)
            files = {}
            for p in os.listdir(d):
                files[p] = list(open(os.path.join(d, p), 'rb').read())
            return dict(exit=r.returncode, stdout=list(r.stdout), files=files, events=[], panic=r.stderr.decode(errors='replace')[-300:] if r.returncode == 101 else None)
        finally:
            shutil.rmtree(d, ignore_errors=True)
