"""mirsym engine: path-wise symbolic execution of rustc MIR text (shape-concrete, content-symbolic).

One `Interp` executes one path at a time.  A path is identified by its *decision prefix*: the list of
booleans taken at symbolic branches.  `start_path(prefix)` re-executes from scratch following the prefix
(no solver calls inside the prefix) and then explores freely, recording the alternative prefixes it leaves
behind in `new_alts`.  All lengths / indices / heap shapes are concrete Python values; only bytes and the
scalars computed from them are z3 terms.
"""
import re, os, glob, sys
import z3
from mirparse import parse_mir, strip_generics, split_top

sys.setrecursionlimit(50000)


class RustPanic(Exception):
    """the executed code panics on this (feasible) path"""


class Unsupported(Exception):
    """the path reached something the encoder has no model for -> path is 'unencoded' (neither pass nor alarm)"""


class Infeasible(Exception):
    pass


class Violation(Exception):
    def __init__(self, msg, role, values):
        Exception.__init__(self, msg)
        self.msg, self.role, self.values = msg, role, values


class PathAbort(Exception):
    """harness decided to drop this path (precondition not met)"""


# ---------------- values -----------------
class Agg(list):  # tuple / struct / array
    ty = None


def TAgg(ty, vals):
    a = Agg(vals)
    a.ty = ty
    return a


class Enum:
    __slots__ = ('ty', 'variant', 'fields')

    def __init__(s, ty, variant, fields):
        s.ty, s.variant, s.fields = ty, variant, fields

    def __repr__(s):
        return f'{s.variant}{s.fields}' if s.fields else s.variant


class Slot:
    __slots__ = ('c', 'k')

    def __init__(s, c, k):
        s.c, s.k = c, k

    def get(s):
        return s.c[s.k]

    def set(s, v):
        s.c[s.k] = v


class Ref:
    __slots__ = ('slot',)

    def __init__(s, slot):
        s.slot = slot


class StrRef:
    """&str: view into a byte buffer (python list of int | z3 BitVec(8))"""
    __slots__ = ('buf', 'start', 'end')

    def __init__(s, buf, start, end):
        s.buf, s.start, s.end = buf, start, end

    def __len__(s):
        return s.end - s.start

    def bytes(s):
        return s.buf[s.start:s.end]


class SliceRef:
    """&[T]: view into a python list; end None = whole list (tracks growth of a Vec deref)"""
    __slots__ = ('lst', 'start', 'end')

    def __init__(s, lst, start, end):
        s.lst, s.start, s.end = lst, start, end


class VecObj:
    __slots__ = ('items',)

    def __init__(s, items=None):
        s.items = items if items is not None else []


class StringObj:
    __slots__ = ('buf', 'meta')

    def __init__(s, buf, meta=None):
        s.buf = buf
        s.meta = meta


class RcObj:
    def __init__(s, v):
        s.cell = [v]


class MapObj:
    def __init__(s):
        s.items = []


class SetObj:
    def __init__(s, items):
        s.items = items


class Closure:
    __slots__ = ('ctype', 'caps')

    def __init__(s, ctype, caps):
        s.ctype, s.caps = ctype, caps


class FnItem:
    __slots__ = ('path',)

    def __init__(s, path):
        s.path = path


class Opaque:
    """opaque std/extern value (chrono instants, fmt arguments, ...)"""

    def __init__(s, kind, **kw):
        s.kind = kind
        s.__dict__.update(kw)


class Iter:
    def __init__(self_, kind, **kw):
        self_.kind = kind
        self_.__dict__.update(kw)

    def clone(s):
        it = Iter(s.kind)
        for k, v in s.__dict__.items():
            it.__dict__[k] = v.clone() if isinstance(v, Iter) else v
        it.__dict__['agg'] = None     # a clone is detached from the range value it was borrowed from
        return it


def cp(v):
    if isinstance(v, Agg):
        a = Agg(cp(x) for x in v)
        a.ty = v.ty
        return a
    if isinstance(v, Enum):
        return Enum(v.ty, v.variant, [cp(x) for x in v.fields])
    # (an iterator value is never `Copy`: a `move` hands over the very same state - cloning it here would detach adaptors built on
    # `by_ref()` / `&mut it` from the iterator they borrow)
    return v


def some(v):
    return Enum('Option', 'Some', [v])


def NONE():
    return Enum('Option', 'None', [])


def ok(v):
    return Enum('Result', 'Ok', [v])


def err(v):
    return Enum('Result', 'Err', [v])


def deref(v):
    while isinstance(v, Ref):
        v = v.slot.get()
    return v


INT_W = {'u8': 8, 'u16': 16, 'u32': 32, 'u64': 64, 'usize': 64, 'i8': 8, 'i16': 16, 'i32': 32, 'i64': 64,
         'isize': 64, 'char': 32, 'u128': 128, 'i128': 128}
SIGNED = {'i8', 'i16', 'i32', 'i64', 'isize', 'i128'}


def is_sym(v):
    return isinstance(v, z3.ExprRef)


def bv8(x):
    return x if is_sym(x) else z3.BitVecVal(x, 8)


def cstr(s):
    b = list(s.encode()) if isinstance(s, str) else list(s)
    return StrRef(b, 0, len(b))


def mk_string(s):
    return StringObj(list(s.encode()) if isinstance(s, str) else list(s))


def mk_box(v):
    return Agg([Agg([Ref(Slot([v], 0))]), Agg()])


def unbox(b):
    return b[0][0].slot.get()


# ---------------- crate metadata from source -----------------
class Crate:
    pass


def _strip_tests(txt):
    return txt.split('#[cfg(test)]')[0]


def scan_source(src_dir):
    """enum variant order, struct field order and simple consts, from the *current* source files"""
    enums, structs, consts = {}, {}, {}
    for path in glob.glob(src_dir + '/**/*.rs', recursive=True):
        mod = path[len(src_dir) + 1:-3].replace('/', '::')
        if mod in ('lib', 'main'):
            mod = ''
        txt = _strip_tests(open(path).read())
        for m in re.finditer(r'\b(enum|struct)\s+(\w+)[^{;(]*\{', txt):
            kind, name = m.group(1), m.group(2)
            i = m.end()
            depth = 1
            j = i
            while depth:
                c = txt[j]
                depth += (c == '{') - (c == '}')
                j += 1
            body = txt[i:j - 1]
            body = re.sub(r'//[^\n]*', '', body)
            body = re.sub(r'"(?:[^"\\]|\\.)*"', '""', body)   # string literals (attribute arguments) may contain brackets and commas
            body = re.sub(r'#\[[^\]]*\]', '', body)
            vs, d, cur = [], 0, ''
            for c in body:
                if c in '({<':
                    d += 1
                elif c in ')}>':
                    d -= 1
                if c == ',' and d == 0:
                    vs.append(cur)
                    cur = ''
                else:
                    cur += c
            if cur.strip():
                vs.append(cur)
            names = []
            for v in vs:
                if not v.strip():
                    continue
                mm = re.match(r'\s*(?:#\[[^\]]*\]\s*)*(?:pub(?:\([^)]*\))?\s+)?(\w+)', v)
                names.append(mm.group(1))
            pre = txt[:m.start()]
            encl = ''
            fm = list(re.finditer(r'\bfn\s+(\w+)', pre))
            if fm:
                k = fm[-1]
                seg = pre[k.end():]
                if seg.count('{') > seg.count('}'):
                    encl = k.group(1)
            inline = []   # inline modules (`mod name { ... }`) still open at this position
            for mm_ in re.finditer(r'\bmod\s+(\w+)\s*\{', pre):
                seg = pre[mm_.end():]
                if 1 + seg.count('{') - seg.count('}') > 0:
                    inline.append(mm_.group(1))
            full = '::'.join(x for x in [mod] + inline + [encl, name] if x)
            (enums if kind == 'enum' else structs)[full] = names
        for m in re.finditer(r'const (\w+): &str = "((?:[^"\\]|\\.)*)";', txt):
            raw = m.group(2)
            b = _unescape(raw)
            consts[(mod + '::' if mod else '') + m.group(1)] = ('str', b)
        for m in re.finditer(r'const (\w+): usize = (\d+);', txt):
            consts[(mod + '::' if mod else '') + m.group(1)] = ('int', int(m.group(2)))
    return enums, structs, consts


def _unescape(raw):
    """rust string-literal body -> bytes"""
    out = bytearray()
    i = 0
    while i < len(raw):
        c = raw[i]
        if c == '\\':
            n = raw[i + 1]
            if n == 'x':
                out.append(int(raw[i + 2:i + 4], 16))
                i += 4
            elif n == 'u':
                j = raw.index('}', i)
                out.extend(chr(int(raw[i + 3:j], 16)).encode())
                i = j + 1
            else:
                out.extend({'n': b'\n', 't': b'\t', 'r': b'\r', '0': b'\0', '\\': b'\\', '"': b'"', "'": b"'"}[n])
                i += 2
        else:
            out.extend(c.encode())
            i += 1
    return bytes(out)


def build_impls(funcs, repo_root):
    """map  (SelfType, TraitLastSegment, method) / 'Type::method'  ->  MIR function name, by reading the impl span"""
    impls = {}
    cache = {}
    for name in funcs:
        m = re.search(r'^(.*?)(?:::)?<impl at ([^:]+):(\d+):(\d+): (\d+):(\d+)>::(.*)$', name)
        if not m:
            continue
        mod, file, l1, c1, l2, c2, rest = m.groups()
        p = file if os.path.isabs(file) else os.path.join(repo_root, file)
        if p not in cache:
            cache[p] = open(p).read().split('\n')
        lines = cache[p]
        l1, c1, l2, c2 = int(l1), int(c1), int(l2), int(c2)
        text = lines[l1 - 1][c1 - 1:c2 - 1] if l1 == l2 else lines[l1 - 1][c1 - 1:]
        if text.startswith('impl'):
            mm = re.match(r'impl(?:<[^>]*>)?\s+(?:([\w:]+)(?:<[^>]*>)?\s+for\s+)?([\w:]+)', text)
            trait, ty = mm.group(1), mm.group(2)
        else:
            trait = text
            ty = None
            for k, ln in enumerate(lines[l1 - 1:]):
                mm = re.search(r'\b(?:struct|enum)\s+(\w+)', ln[c2 - 1:] if k == 0 and l1 == l2 else ln)
                if mm:
                    ty = mm.group(1)
                    break
            if ty is None:
                continue
        full_ty = (mod + '::' if mod else '') + ty.split('::')[-1]
        if trait:
            impls[(full_ty, trait.split('::')[-1], rest)] = name
        else:
            impls[full_ty + '::' + rest] = name
    return impls


def load_crate(mir_path, repo_root, src_dir):
    c = Crate()
    text = open(mir_path).read()
    c.funcs = parse_mir(text)
    c.enums, c.structs, c.consts = scan_source(src_dir)
    # one-line const items of the MIR dump (`const path::NAME: T = const LITERAL;`): evaluated like any literal operand
    c.mir_consts = {m.group(1): m.group(2) for m in re.finditer(r'^const ([\w:]+): [^=\n]+ = const (.+);$', text, re.M)}
    c.impls = build_impls(c.funcs, repo_root)
    c.closure_map = {}
    for name, f in c.funcs.items():
        if '{closure#' in name and f.params:
            t = f.locals[f.params[0]]
            m = re.search(r'\{closure@[^}]*\}', t)
            if m:
                c.closure_map[m.group(0)] = name
    return c


# ---------------- interpreter -----------------
STEP_BUDGET = 3_000_000   # per path; MirImpl raises it in proportion to the document size (step_limit)


class Interp:
    def __init__(self, crate, models):
        self.crate = crate
        self.funcs = crate.funcs
        self.enums = crate.enums
        self.impls = crate.impls
        self.closure_map = crate.closure_map
        self.models = models
        self.consts = {}
        for k, (kind, v) in crate.consts.items():
            self.consts[k] = cstr(v) if kind == 'str' else v
        self.stats = dict(solver_calls=0, solver_time=0.0)
        self.funcs_hit = set()
        self.models_hit = set()
        self.cur_func = ''
        self.concrete = False

    # ------------- path machinery --------------
    def start_path(self, prefix, timeout_ms=60000):
        self.step_limit = STEP_BUDGET
        self.prefix = prefix
        self.decisions = []
        self.solver = z3.Solver()
        self.solver.set('timeout', timeout_ms)
        self.steps = 0
        self.new_alts = []
        self.model = None  # a model of the current path condition, or None if unknown
        self.vars = {}  # name -> list of z3 byte vars / int var
        self.covers = set()
        self.notes = {}
        self.nchecks = 0
        self.ndischarged = 0
        self.known_hits = []

    def add(self, c):
        if c is True:
            return
        if c is False:
            raise Infeasible()
        self.solver.add(c)
        if self.model is not None:
            v = self.model.eval(c, model_completion=True)
            if not z3.is_true(v):
                self.model = None

    def _check(self, c):
        """is pc ∧ c satisfiable?  returns model or None"""
        import time
        t0 = time.time()
        self.stats['solver_calls'] += 1
        self.solver.push()
        self.solver.add(c)
        r = self.solver.check()
        m = self.solver.model() if r == z3.sat else None
        self.solver.pop()
        self.stats['solver_time'] += time.time() - t0
        if r == z3.unknown:
            raise Unsupported('solver unknown: ' + self.solver.reason_unknown())
        return m

    def get_model(self):
        if self.model is None:
            import time
            t0 = time.time()
            self.stats['solver_calls'] += 1
            r = self.solver.check()
            self.stats['solver_time'] += time.time() - t0
            if r == z3.unknown:
                raise Unsupported('solver unknown')
            if r == z3.unsat:
                raise Infeasible()
            self.model = self.solver.model()
        return self.model

    def branch(self, cond):
        if isinstance(cond, bool):
            return cond
        if isinstance(cond, int):
            return cond != 0
        cond = z3.simplify(cond)
        if z3.is_true(cond):
            return True
        if z3.is_false(cond):
            return False
        i = len(self.decisions)
        if i < len(self.prefix):
            d = self.prefix[i]
            self.decisions.append(d)
            self.solver.add(cond if d else z3.Not(cond))
            self.model = None
            return d
        m = self.get_model()
        cur = z3.is_true(m.eval(cond, model_completion=True))
        other = z3.Not(cond) if cur else cond
        m2 = self._check(other)
        if m2 is not None:
            # both feasible: take True first (deterministic), leave the other side as work
            self.new_alts.append(self.decisions + [False])
            self.decisions.append(True)
            self.solver.add(cond)
            self.model = m if cur else m2
            return True
        # only the `cur` side is feasible.  The bit is still recorded: prefix replay makes no solver calls and
        # therefore cannot tell an implied branch from a free one, so every branch that gets here owns one bit.
        self.decisions.append(cur)
        return cur

    def check(self, cond, msg, role=None):
        """obligation: cond holds for every input on this path"""
        self.nchecks += 1
        if isinstance(cond, bool):
            if cond:
                self.ndischarged += 1
                return
            raise Violation(msg, role, self.model_values())
        cond = z3.simplify(cond)
        if z3.is_true(cond):
            self.ndischarged += 1
            return
        m = self._check(z3.Not(cond))
        if m is not None:
            raise Violation(msg, role, self.model_values(m))
        self.ndischarged += 1

    def cover(self, label):
        self.covers.add(label)

    # ------------- symbolic inputs --------------
    def fresh_bytes(self, name, n):
        bs = [z3.BitVec(f'{name}_{i}', 8) for i in range(n)]
        self.vars[name] = bs
        return list(bs)

    def fresh_int(self, name, width=64):
        v = z3.BitVec(name, width)
        self.vars[name] = v
        return v

    def model_values(self, m=None):
        if m is None:
            m = self.get_model()
        out = {}
        for k, v in self.vars.items():
            if isinstance(v, list):
                out[k] = [m.eval(b, model_completion=True).as_long() for b in v]
            else:
                out[k] = m.eval(v, model_completion=True).as_long()
        return out

    # ------------- places --------------
    def resolve(self, fr, pl):
        k = pl[0]
        if k == 'local':
            return Slot(fr, pl[1])
        if k == 'deref':
            v = self.resolve(fr, pl[1]).get()
            if isinstance(v, Ref):
                return v.slot
            if isinstance(v, (SliceRef, StrRef, VecObj, StringObj)):
                return Slot([v], 0)
            raise Unsupported(f'deref of {type(v).__name__}')
        if k == 'field':
            v = self.resolve(fr, pl[1]).get()
            if isinstance(v, Agg):
                return Slot(v, pl[2])
            if isinstance(v, Enum):
                return Slot(v.fields, pl[2])
            if isinstance(v, Closure):
                return Slot(v.caps, pl[2])
            raise Unsupported(f'field of {type(v).__name__} {pl}')
        if k == 'downcast':
            return self.resolve(fr, pl[1])
        if k in ('index', 'constindex'):
            v = self.resolve(fr, pl[1]).get()
            idx = fr[pl[2]] if k == 'index' else pl[2]
            if is_sym(idx):
                raise Unsupported('symbolic index')
            if isinstance(v, VecObj):
                lst, base, n = v.items, 0, len(v.items)
            elif isinstance(v, SliceRef):
                lst, base, n = v.lst, v.start, (len(v.lst) if v.end is None else v.end) - v.start
            elif isinstance(v, Agg):
                lst, base, n = v, 0, len(v)
            else:
                raise Unsupported('index of ' + type(v).__name__)
            if k == 'constindex' and idx < 0:
                idx = n + idx     # `[-1 of 2]`: ConstantIndex counted from the end (slice patterns `[.., last]`)
            if idx >= n or idx < 0:
                raise RustPanic(f'index out of bounds: the len is {n} but the index is {idx}')
            return Slot(lst, base + idx)
        if k == 'subslice':
            # slice patterns `[first, rest @ ..]` / `[.., a, b]`:  [from:]  [from:-to]  [:-to]
            v = self.resolve(fr, pl[1]).get()
            if isinstance(v, VecObj):
                lst, base, n = v.items, 0, len(v.items)
            elif isinstance(v, SliceRef):
                lst, base, n = v.lst, v.start, (len(v.lst) if v.end is None else v.end) - v.start
            elif isinstance(v, Agg):
                lst, base, n = v, 0, len(v)
            else:
                raise Unsupported('subslice of ' + type(v).__name__)
            m = re.match(r'^(\d*):(-?\d*)$', pl[2].strip())
            if not m:
                raise Unsupported('subslice ' + pl[2])
            lo = int(m.group(1) or 0)
            hi = n if m.group(2) == '' else (n + int(m.group(2)) if m.group(2).startswith('-') else int(m.group(2)))
            if lo > hi or hi > n:
                raise RustPanic('slice pattern out of range')
            return Slot([SliceRef(lst, base + lo, base + hi)], 0)
        raise Unsupported('place ' + str(pl))

    def optype(self, fr_types, op):
        if op[0] == 'const':
            m = re.search(r'_(u8|u16|u32|u64|usize|i8|i16|i32|i64|isize|u128|i128)$', op[1])
            if m:
                return m.group(1)
            if op[1] in ('true', 'false'):
                return 'bool'
            if op[1].startswith("'"):
                return 'char'
            return None
        pl = op[1]
        if pl[0] == 'local':
            return fr_types.get(pl[1])
        if pl[0] == 'field':
            return pl[3]
        return None

    def operand(self, fr, op, f):
        if op[0] in ('copy', 'move'):
            return cp(self.resolve(fr, op[1]).get())
        c = op[1]
        m = re.match(r'(-?\d+)_(\w+)$', c)
        if m:
            return int(m.group(1))
        if c == 'true':
            return True
        if c == 'false':
            return False
        m = re.match(r'(?:core::num::<impl )?(u8|u16|u32|u64|usize|u128|i8|i16|i32|i64|isize|i128)>?::(MIN|MAX|BITS)$', c)
        if m:
            w = INT_W[m.group(1)]
            if m.group(2) == 'BITS':
                return w
            if m.group(1) in SIGNED:
                return -(1 << (w - 1)) if m.group(2) == 'MIN' else (1 << (w - 1)) - 1
            return 0 if m.group(2) == 'MIN' else (1 << w) - 1
        if c in ('char::MAX', 'std::char::MAX'):
            return 0x10FFFF
        if c.startswith("'"):
            s = c[1:-1]
            if s.startswith('\\'):
                s = {'\\n': '\n', '\\t': '\t', "\\'": "'", '\\\\': '\\', '\\r': '\r', '\\0': '\0', '\\"': '"'}.get(s) or chr(
                    int(s[3:-1], 16))
            return ord(s)
        if c.startswith('b"'):
            out = list(_unescape(c[2:-1]))
            return SliceRef(out, 0, len(out))
        if c.startswith('"'):
            b = list(_unescape(c[1:-1]))
            return StrRef(b, 0, len(b))
        if 'promoted[' in c:
            name = self.resolve_promoted(c, f)
            return self.call(name, [])
        if c == '()':
            return Agg()
        if c.endswith('{{  }}'):
            return TAgg(strip_generics(c[:-6].strip()), [])
        if c.startswith('ZeroSized: {closure@'):
            return Closure(c[len('ZeroSized: '):], [])
        if c in self.consts:
            return self.consts[c]
        mc = getattr(self.crate, 'mir_consts', {})
        if c in mc and mc[c] != c:
            return self.operand(fr, ('const', mc[c]), f)
        fc = self.funcs.get(c) or self.funcs.get(strip_generics(c))
        if fc is not None and not fc.params and getattr(fc, 'raw_header', '').startswith('const '):
            return self.call(fc.name, [])
        sc = strip_generics(c)
        if sc in self.consts:
            return self.consts[sc]
        if re.match(r'^[\w:<> ,&\[\]\'\(\)]+$', c) and ('::' in c or strip_generics(c) in self.funcs):
            return FnItem(c)
        raise Unsupported('const ' + c)

    def resolve_promoted(self, c, f):
        idx = c[c.rindex('promoted['):]
        name = f.name + '::' + idx
        if name in self.funcs:
            return name
        raise Unsupported('promoted ' + c)

    # ------------- arithmetic --------------
    def binop(self, name, a, b, ty):
        w = INT_W.get(ty, 64)
        signed = ty in SIGNED
        sym = is_sym(a) or is_sym(b)
        if ty == 'bool' or isinstance(a, bool) or isinstance(b, bool) or (is_sym(a) and z3.is_bool(a)) or (
                is_sym(b) and z3.is_bool(b)):
            if name in ('Eq', 'Ne', 'BitAnd', 'BitOr', 'BitXor'):
                if not sym:
                    return {'Eq': a == b, 'Ne': a != b, 'BitAnd': bool(a and b), 'BitOr': bool(a or b),
                            'BitXor': a != b}[name]
                za = a if is_sym(a) else z3.BoolVal(bool(a))
                zb = b if is_sym(b) else z3.BoolVal(bool(b))
                return {'Eq': za == zb, 'Ne': za != zb, 'BitAnd': z3.And(za, zb), 'BitOr': z3.Or(za, zb),
                        'BitXor': z3.Xor(za, zb)}[name]
        if not sym:
            mask = (1 << w) - 1
            if name in ('Eq', 'Ne', 'Lt', 'Le', 'Gt', 'Ge'):
                return {'Eq': a == b, 'Ne': a != b, 'Lt': a < b, 'Le': a <= b, 'Gt': a > b, 'Ge': a >= b}[name]
            if name == 'Cmp':
                return Enum('Ordering', 'Less' if a < b else ('Equal' if a == b else 'Greater'), [])
            if name.endswith('WithOverflow'):
                r = {'Add': a + b, 'Sub': a - b, 'Mul': a * b}[name[:3]]
                lo, hi = (-(1 << (w - 1)), (1 << (w - 1)) - 1) if signed else (0, mask)
                ov = r < lo or r > hi
                if ov:
                    r = r & mask if not signed else ((r + (1 << (w - 1))) & mask) - (1 << (w - 1))
                return Agg([r, ov])
            base = name.replace('Unchecked', '')
            if base in ('Add', 'Sub', 'Mul'):
                r = {'Add': a + b, 'Sub': a - b, 'Mul': a * b}[base]
                return r & mask if not signed else ((r + (1 << (w - 1))) & mask) - (1 << (w - 1))
            if base == 'Div':
                if b == 0:
                    raise RustPanic('attempt to divide by zero')
                return abs(a) // abs(b) * (1 if (a >= 0) == (b >= 0) else -1)
            if base == 'Rem':
                if b == 0:
                    raise RustPanic('attempt to calculate the remainder with a divisor of zero')
                return abs(a) % abs(b) * (1 if a >= 0 else -1)
            if base == 'BitAnd':
                return a & b
            if base == 'BitOr':
                return a | b
            if base == 'BitXor':
                return a ^ b
            if base == 'Shl':
                return (a << b) & mask
            if base == 'Shr':
                return a >> b
            raise Unsupported('binop ' + name)
        if is_sym(a):
            w = a.size()
        elif is_sym(b):
            w = b.size()
        za = a if is_sym(a) else z3.BitVecVal(a, w)
        zb = b if is_sym(b) else z3.BitVecVal(b, w)
        if name == 'Eq':
            return za == zb
        if name == 'Ne':
            return za != zb
        if name == 'Lt':
            return za < zb if signed else z3.ULT(za, zb)
        if name == 'Le':
            return za <= zb if signed else z3.ULE(za, zb)
        if name == 'Gt':
            return za > zb if signed else z3.UGT(za, zb)
        if name == 'Ge':
            return za >= zb if signed else z3.UGE(za, zb)
        base = name.replace('Unchecked', '')
        if base == 'Add':
            return za + zb
        if base == 'Sub':
            return za - zb
        if base == 'Mul':
            return za * zb
        if base == 'BitAnd':
            return za & zb
        if base == 'BitOr':
            return za | zb
        if base == 'BitXor':
            return za ^ zb
        if base == 'Shl':
            return za << zb
        if base == 'Shr':
            return (za >> zb) if signed else z3.LShR(za, zb)
        if name.endswith('WithOverflow'):
            op = name[:3]
            if op == 'Add':
                r = za + zb
                ov = z3.Not(z3.BVAddNoOverflow(za, zb, signed)) if not signed else z3.Or(
                    z3.Not(z3.BVAddNoOverflow(za, zb, True)), z3.Not(z3.BVAddNoUnderflow(za, zb)))
            elif op == 'Sub':
                r = za - zb
                ov = z3.Not(z3.BVSubNoUnderflow(za, zb, signed)) if not signed else z3.Or(
                    z3.Not(z3.BVSubNoOverflow(za, zb)), z3.Not(z3.BVSubNoUnderflow(za, zb, True)))
            else:
                r = za * zb
                ov = z3.Not(z3.BVMulNoOverflow(za, zb, signed))
            return Agg([r, ov])
        raise Unsupported('symbolic binop ' + name)

    # ------------- execution --------------
    def call(self, fname, args):
        f = self.funcs[fname]
        self.funcs_hit.add(fname)
        fr = {}
        for n_, ty_ in f.locals.items():
            # zero-sized values are never assigned in MIR: a non-capturing closure held in a local exists from the start
            if isinstance(ty_, str) and ty_.startswith('{closure@'):
                fr[n_] = Closure(ty_, [])
        for p, a in zip(f.params, args):
            fr[p] = a
        bb = 'bb0'
        while True:
            stmts, term, raw = f.blocks[bb]
            for st in stmts:
                if st[0] == 'assign':
                    v = self.rvalue(fr, st[2], f)
                    self.resolve(fr, st[1]).set(v)
                elif st[0] == 'setdisc':
                    raise Unsupported('setdisc')
                elif st[0] == 'unsupported':
                    raise Unsupported('MIR statement form: ' + st[1])
            self.steps += len(stmts) + 1
            if self.steps > getattr(self, 'step_limit', STEP_BUDGET):
                raise RustPanic('step budget exceeded (non-termination?)')
            k = term[0]
            if k == 'goto':
                bb = term[1]
            elif k == 'return':
                return fr.get(0, Agg())
            elif k == 'switch':
                v = self.operand(fr, term[1], f)
                nxt = None
                if isinstance(v, bool):
                    v = int(v)
                if isinstance(v, int):
                    for val, tgt in term[2]:
                        if val == v:
                            nxt = tgt
                            break
                    if nxt is None:
                        nxt = term[3]
                elif z3.is_bool(v):
                    t = self.branch(v)
                    for val, tgt in term[2]:
                        if val == int(t):
                            nxt = tgt
                            break
                    if nxt is None:
                        nxt = term[3]
                else:
                    for val, tgt in term[2]:
                        if self.branch(v == z3.BitVecVal(val, v.size())):
                            nxt = tgt
                            break
                    if nxt is None:
                        nxt = term[3]
                if nxt is None:
                    raise Unsupported('switch without otherwise fell through in ' + fname)
                bb = nxt
            elif k == 'assert':
                v = self.operand(fr, term[1], f)
                okv = self.branch(v) == term[2]
                if not okv:
                    raise RustPanic('assert: ' + term[3][:80])
                bb = term[4]
            elif k == 'drop':
                bb = term[2]
            elif k == 'call':
                _, dest, func, aops, ret = term
                argv = [self.operand(fr, a, f) for a in aops]
                r = self.dispatch(func, argv, f, fr)
                if ret is None:
                    raise RustPanic('diverging call returned: ' + func)
                if dest is not None:
                    self.resolve(fr, dest).set(r)
                bb = ret
            elif k == 'unreachable':
                raise Unsupported('reached unreachable in ' + fname)
            elif k == 'unsupported':
                raise Unsupported('MIR terminator form: ' + term[1])
            else:
                raise Unsupported('terminator ' + k)

    def rvalue(self, fr, rv, f):
        k = rv[0]
        if k == 'use':
            return self.operand(fr, rv[1], f)
        if k == 'ref':
            return Ref(self.resolve(fr, rv[2]))
        if k == 'tuple':
            return Agg(self.operand(fr, o, f) for o in rv[1])
        if k == 'array':
            return TAgg('[array]', [self.operand(fr, o, f) for o in rv[1]])
        if k == 'repeat':
            v = self.operand(fr, rv[1], f)
            n = int(re.match(r'\s*(\d+)', rv[2]).group(1))
            return TAgg('[array]', [cp(v) for _ in range(n)])
        if k == 'adt':
            path = rv[1]
            vals = [self.operand(fr, o, f) for o in rv[2]]
            head, _, last = path.rpartition('::')
            if head in self.enums and last in self.enums[head]:
                return Enum(head, last, vals)
            if head.startswith('chiritori::') and head[11:] in self.enums and last in self.enums[head[11:]]:
                return Enum(head[11:], last, vals)
            if head == 'std::option::Option':
                return Enum('Option', last, vals)
            if head == 'std::result::Result':
                return Enum('Result', last, vals)
            if head == 'std::cmp::Ordering':
                return Enum('Ordering', last, vals)
            if head == 'std::ops::ControlFlow':
                return Enum('ControlFlow', last, vals)
            if head == 'std::borrow::Cow':
                return Enum('Cow', last, vals)
            return TAgg(path, vals)
        if k == 'closure':
            return Closure(rv[1], [self.operand(fr, o, f) for o in rv[2]])
        if k == 'discriminant':
            v = self.resolve(fr, rv[1]).get()
            if isinstance(v, Enum):
                if v.ty == 'Option':
                    return {'None': 0, 'Some': 1}[v.variant]
                if v.ty == 'Result':
                    return {'Ok': 0, 'Err': 1}[v.variant]
                if v.ty == 'Ordering':
                    return {'Less': -1, 'Equal': 0, 'Greater': 1}[v.variant]
                if v.ty == 'ControlFlow':
                    return {'Continue': 0, 'Break': 1}[v.variant]
                if v.ty == 'Cow':
                    return {'Borrowed': 0, 'Owned': 1}[v.variant]
                return self.enums[v.ty].index(v.variant)
            raise Unsupported('discriminant of ' + type(v).__name__)
        if k == 'binop':
            a = self.operand(fr, rv[2], f)
            b = self.operand(fr, rv[3], f)
            ty = self.optype(f.locals, rv[2]) or self.optype(f.locals, rv[3]) or 'usize'
            ty = ty.lstrip('&')
            return self.binop(rv[1], a, b, ty)
        if k == 'unop':
            a = self.operand(fr, rv[2], f)
            if rv[1] == 'Not':
                if isinstance(a, bool):
                    return not a
                if is_sym(a) and z3.is_bool(a):
                    return z3.Not(a)
                if isinstance(a, int):
                    ty = self.optype(f.locals, rv[2]) or 'usize'
                    return (~a) & ((1 << INT_W.get(ty, 64)) - 1)
                if is_sym(a):
                    return ~a
            if rv[1] == 'Neg':
                if isinstance(a, int):
                    return -a
            if rv[1] == 'PtrMetadata':
                x = a
                while isinstance(x, Ref):
                    x = x.slot.get()
                if isinstance(x, StrRef):
                    return len(x)
                if isinstance(x, SliceRef):
                    return (len(x.lst) if x.end is None else x.end) - x.start
                if isinstance(x, VecObj):
                    return len(x.items)
                if isinstance(x, Agg):
                    return len(x)
                if isinstance(x, StringObj):
                    return len(x.buf)
            raise Unsupported('unop ' + rv[1] + ' of ' + type(a).__name__)
        if k == 'cast':
            v = self.operand(fr, rv[1], f)
            if rv[3] == 'IntToInt':
                tw = INT_W.get(rv[2])
                if tw is None:
                    raise Unsupported('cast to ' + rv[2])
                if is_sym(v):
                    if z3.is_bool(v):
                        return z3.If(v, z3.BitVecVal(1, tw), z3.BitVecVal(0, tw))
                    if tw > v.size():
                        sty = self.optype(f.locals, rv[1])
                        return z3.SignExt(tw - v.size(), v) if sty in SIGNED else z3.ZeroExt(tw - v.size(), v)
                    return z3.Extract(tw - 1, 0, v) if tw < v.size() else v
                if isinstance(v, bool):
                    v = int(v)
                r = v & ((1 << tw) - 1)
                if rv[2] in SIGNED and r >= (1 << (tw - 1)):
                    r -= 1 << tw
                return r
            return v
        if k == 'len':
            v = self.resolve(fr, rv[1]).get()
            if isinstance(v, Agg):
                return len(v)
            if isinstance(v, SliceRef):
                return (len(v.lst) if v.end is None else v.end) - v.start
            raise Unsupported('Len of ' + type(v).__name__)
        raise Unsupported('rvalue ' + k)

    def dispatch(self, func, argv, f, fr=None):
        name = strip_generics(func)
        self.cur_func = func
        if name in self.funcs:
            return self.call(name, argv)
        if name in self.impls:
            return self.call(self.impls[name], argv)
        m = re.match(r'<(.*) as (.*)>::(.*)$', name)
        if m:
            recv_ty, trait, meth = m.group(1), m.group(2), m.group(3)
            key = (recv_ty.lstrip('&').strip(), trait.split('::')[-1], meth)
            if key in self.impls:
                return self.call(self.impls[key], argv)
            # one derive may generate impls of several traits (derive(Parser) -> Parser, CommandFactory, FromArgMatches, Args)
            alt = [v for k, v in self.impls.items() if isinstance(k, tuple) and k[0] == key[0] and k[2] == meth and 'main.rs' in v]
            if len(alt) == 1:
                return self.call(alt[0], argv)
            if recv_ty.startswith('dyn '):
                recv = deref(argv[0])
                rty = recv.path if isinstance(recv, FnItem) else getattr(recv, 'ty', None)   # a unit struct value is a bare path
                key = (strip_generics(rty) if rty else None, trait.split('::')[-1], meth)
                if key in self.impls:
                    return self.call(self.impls[key], argv)
                raise Unsupported(f'dyn dispatch {key}')
        if name.startswith('chiritori::') and getattr(self.crate, 'has_cli', False):
            # the cli crate names library items with the crate prefix
            short = name[len('chiritori::'):]
            if short in self.funcs:
                return self.call(short, argv)
            if short in self.impls:
                return self.call(self.impls[short], argv)
        mc = re.match(r'<(\{closure@.*\}) as std::ops::(?:Fn|FnMut|FnOnce)>::(?:call|call_mut|call_once)$', name)
        if mc:
            # closure called through the Fn* traits: (closure or &closure, argument tuple)
            args = argv[1]
            return self.call_closure(argv[0], list(args) if isinstance(args, Agg) else [args])
        mdl = self.models.lookup(name)
        if mdl is None:
            # a local holding a closure / fn item called directly:  _7(move _8)
            raise Unsupported('no model for call: ' + name)
        self.models_hit.add(name)
        return mdl(self, argv)

    def call_closure(self, clo, args):
        if isinstance(clo, FnItem):
            return self.dispatch(clo.path, list(args), None)
        clo = deref(clo) if isinstance(clo, Ref) else clo
        fname = self.closure_map[clo.ctype]
        f = self.funcs[fname]
        t = f.locals[f.params[0]]
        first = Ref(Slot([clo], 0)) if t.startswith('&') else clo
        return self.call(fname, [first] + list(args))

    # ------------- struct construction by field name (order from the current source) --------------
    def mk_struct(self, path, **fields):
        order = self.crate.structs[path]
        assert set(order) == set(fields), (order, list(fields))
        return TAgg(path, [fields[k] for k in order])

    def field(self, agg, path, name):
        return agg[self.crate.structs[path].index(name)]
