"""Parallel exploration of harness paths (decision-prefix work-list over a process pool)."""
import os, sys, time, json, random, traceback, hashlib
from concurrent.futures import ProcessPoolExecutor, wait, FIRST_COMPLETED
import z3
import engine
from engine import *
import models
import impl as implmod
from harness import HARNESSES, SymCtx, ConcCtx

_G = {}


def _init(mir_path, repo_root, src_dir, native_bin, prop_modules, known_roles=(), cli_paths=None):
    _G['known_roles'] = set(known_roles)
    _G['cli_paths'] = cli_paths
    z3.set_param('parallel.enable', False)
    if cli_paths:
        import cli
        crate = cli.load_merged(cli_paths)
    else:
        crate = engine.load_crate(mir_path, repo_root, src_dir)
    _G['crate'] = crate
    _G['I'] = Interp(crate, models.Models())
    _G['native'] = implmod.NativeImpl(native_bin) if native_bin else None
    if cli_paths and _G['native'] is not None:
        import cli
        _G['native'].cli = cli.NativeCli(cli_paths['cli_bin'])
    for m in prop_modules:
        __import__(m)


def _decode_vals(vals):
    out = {}
    for k, v in vals.items():
        if isinstance(v, list):
            try:
                out[k] = bytes(v).decode()
            except Exception:
                out[k] = repr(bytes(v))
        else:
            out[k] = v
    return out


def run_path(hname, params, prefix, validate=False):
    """execute one path; returns a result record"""
    I = _G['I']
    h = HARNESSES[hname]
    I.start_path(prefix)
    if _G.get('native') is not None:
        _G['native'].tz = params.get('tz') if isinstance(params, dict) else None   # process time zone of the native observer for this job
    I.json_text = False   # per-path switch of the serde stub (set by the C20 harness); must not leak into the next job of this worker
    ctx = SymCtx(I)
    rec = dict(status='ok')
    try:
        try:
            try:
                h(ctx, params)
            except z3.Z3Exception as e:
                if 'cast to concrete Boolean' in str(e):
                    where = traceback.format_exc().strip().split('\n')[-3].strip()[:100]
                    raise Unsupported('a symbolic value reached a place where the encoder needs a concrete one: ' + where)
                raise
        except implmod.ImplPanic as e:
            # every property presupposes that the call returns: a panic on a feasible path violates it (and C01 in particular)
            rec['status'] = 'panic'
            rec['msg'] = str(e)[:200]
            try:
                vals = I.model_values()
                rec['values'] = vals
                if _G['native'] is not None:
                    st, msg, role = native_replay(hname, params, vals, _G['native'])
                    if st == 'panic':
                        rec.update(status='known' if 'panic' in _G.get('known_roles', ()) else 'violation', msg='the implementation panics: ' + str(e)[:160],
                                   role='panic', native=st, native_msg=msg)
            except Infeasible:
                rec['status'] = 'infeasible'
    except Violation as v:
        rec.update(status='violation', msg=v.msg, role=None, values=v.values)
        # replay the solver's model against the real (native, dev profile) build right away: this yields the
        # role of the counterexample (roles are computed on concrete values only) and the native verdict
        if _G['native'] is not None:
            st, msg, role = native_replay(hname, params, v.values, _G['native'])
            rec.update(native=st, native_msg=msg, role=role)
            if st in ('violation', 'panic') and role in _G.get('known_roles', ()):
                rec['status'] = 'known'
    except Infeasible:
        rec['status'] = 'infeasible'
    except PathAbort:
        rec['status'] = 'aborted'
    except Unsupported as e:
        rec.update(status='unencoded', msg=str(e)[:200])
        # graceful degradation: the encoder cannot continue on this path (a callee without a model). Replay one
        # representative of the path condition reached so far against the native build: not a solver verdict for the
        # path (it stays counted as unencoded), but a violation found this way is a real, replayed counterexample.
        if _G['native'] is not None:
            try:
                n = 0
                for vals in diverse_models(I, int(os.environ.get('VERIF_UNENCODED_SAMPLES', '6')), random.Random(len(prefix) * 7919 + sum(prefix))):
                    st, msg, role = native_replay(hname, params, vals, _G['native'])
                    n += 1
                    rec['native_sampled'] = st
                    if st == 'panic':
                        role, msg = 'panic', 'the implementation panics: ' + msg[:160]
                    if st in ('violation', 'panic'):
                        rec.update(status='known' if role in _G.get('known_roles', ()) else 'violation', msg=msg + ' [found by native replay of an unencoded path]',
                                   role=role, values=vals, native=st, native_msg=msg)
                        break
                rec['native_samples'] = n
            except (Infeasible, KeyError, AssertionError, Unsupported):
                pass
    except RecursionError:
        rec.update(status='unencoded', msg='python recursion limit')
    except Exception as e:
        rec.update(status='error', msg='harness/engine error: ' + repr(e)[:150] + ' @ ' + traceback.format_exc().strip().split('\n')[-3].strip()[:120])
    rec['alts'] = I.new_alts
    rec['covers'] = I.covers
    rec['depth'] = len(I.decisions)
    rec['nchecks'] = I.nchecks
    rec['ndischarged'] = I.ndischarged
    rec['steps'] = I.steps
    if validate and rec['status'] == 'ok' and _G['native'] is not None and ctx.impl.log:
        # translation validation: replay this path's model natively and compare the observables
        try:
            m = I.get_model()
            vals = I.model_values(m)
            okv = True
            for fn, args, res in ctx.impl.log:
                cargs = implmod.concretize(args, m)
                cres = implmod.concretize(res, m)
                try:
                    nres = _G['native'].replay_logged(fn, cargs)
                except implmod.ImplPanic as e:
                    nres = dict(panic=str(e))
                if json.dumps(nres, sort_keys=True) != json.dumps(cres, sort_keys=True):
                    okv = False
                    rec['tv_mismatch'] = dict(fn=fn, args=_short(cargs), mir=_short(cres), native=_short(nres))
                    break
            rec['validated'] = okv
            rec['sample'] = _decode_vals(vals)
            if 'document' in I.notes:
                try:
                    rec['sample']['document'] = bytes(implmod.concretize(I.notes['document'], m)).decode(errors='replace')
                except Exception:
                    pass
        except (Infeasible, Unsupported):
            pass
    return rec


# byte patterns the diversified sampling of an unencoded path pushes input bytes towards: blanks, line ends, quotes, '=', '/', '<', '>',
# and multi-byte characters (U+3000 full-width space, U+00E9, U+FEFF, U+013C whose low byte is '<', U+305B whose low byte is '[', U+1F600)
PATTERNS = [[32], [9], [10], [13], [11], [12], [0xC2, 0xA0], [0xF0, 0x9F, 0x8E, 0x89], [0xC4, 0xB0], [0xE2, 0x84, 0xAA], [0xE1, 0xBA, 0x9E],   # (İ, Kelvin sign, ẞ: case mapping changes their byte length)
            [34], [39], [61], [47], [60], [62], [0], [0xE3, 0x80, 0x80], [0xC3, 0xA9], [0xEF, 0xBB, 0xBF], [0xC4, 0xBC], [0xE3, 0x81, 0x9B],
            [0xF0, 0x9F, 0x98, 0x80], [32, 32], [10, 10], [9, 32]]


def diverse_models(I, k, rnd):
    """up to k models of the current path condition: the solver's own model first, then models in which a randomly chosen run of input
    bytes is constrained to one of PATTERNS (kept when satisfiable together with the path condition)"""
    yield I.model_values()
    holes = [(name, v) for name, v in I.vars.items() if isinstance(v, list) and v]
    if not holes:
        return
    s = I.solver
    got, tries = 1, 0
    while got < k and tries < 3 * k:
        tries += 1
        s.push()
        try:
            for _ in range(1 + rnd.randrange(2)):
                name, v = holes[rnd.randrange(len(holes))]
                pat = PATTERNS[rnd.randrange(len(PATTERNS))]
                if len(pat) > len(v):
                    continue
                pos = rnd.randrange(len(v) - len(pat) + 1)
                for j, b in enumerate(pat):
                    if z3.is_expr(v[pos + j]):
                        s.add(v[pos + j] == b)
            I.stats['solver_calls'] += 1
            if s.check() == z3.sat:
                m = s.model()
                got += 1
                yield I.model_values(m)
        finally:
            s.pop()


def native_replay(hname, params, values, nat):
    """re-run a counterexample against the real build; returns ('violation'|'panic'|'pass'|'aborted', msg, role)"""
    ctx = ConcCtx(values, nat)
    try:
        HARNESSES[hname](ctx, params)
        return 'pass', '', None
    except Violation as v:
        return 'violation', v.msg, v.role() if callable(v.role) else v.role
    except implmod.ImplPanic as e:
        return 'panic', str(e), None
    except PathAbort:
        return 'aborted', '', None


def _short(x):
    s = json.dumps(x, sort_keys=True)
    return s if len(s) < 1500 else s[:1500] + '...'


def explore_task(job_idx, hname, params, prefixes, max_paths, max_s, validate_every, seed):
    t0 = time.time()
    I = _G['I']
    sc0, st0 = I.stats['solver_calls'], I.stats['solver_time']
    out = dict(job=job_idx, paths=0, by_status={}, covers=set(), violations=[], panics=[], unencoded={}, samples=[],
               validated=0, tv_mismatch=[], known={}, depth_max=0, nchecks=0, ndischarged=0, steps=0, branches=0)
    stack = list(prefixes)
    rnd = random.Random(seed ^ hash(tuple(prefixes[0])) if prefixes else seed)
    while stack and out['paths'] < max_paths and time.time() - t0 < max_s:
        prefix = stack.pop()
        validate = validate_every > 0 and rnd.randrange(validate_every) == 0
        r = run_path(hname, params, prefix, validate)
        stack.extend(r['alts'])
        st = r['status']
        if st == 'infeasible':
            out['by_status'][st] = out['by_status'].get(st, 0) + 1
            continue
        out['paths'] += 1
        out['by_status'][st] = out['by_status'].get(st, 0) + 1
        out['covers'] |= r['covers']
        out['depth_max'] = max(out['depth_max'], r['depth'])
        out['branches'] += r['depth'] - len(prefix)
        out['nchecks'] += r['nchecks']
        out['ndischarged'] += r['ndischarged']
        out['steps'] += r['steps']
        if st == 'violation':
            out['violations'].append(dict(msg=r['msg'], role=r['role'], values=r['values'], harness=hname, params=params,
                                          native=r.get('native'), native_msg=r.get('native_msg')))
        elif st == 'known':
            k = out['known'].setdefault(r['role'], dict(n=0, example=None))
            k['n'] += 1
            if k['example'] is None:
                k['example'] = dict(msg=r['msg'], values=r['values'], harness=hname, params=params, native=r['native'])
        elif st == 'panic':
            if len(out['panics']) < 5:
                out['panics'].append(dict(msg=r['msg'], values=r.get('values'), harness=hname, params=params))
        elif st in ('unencoded', 'error'):
            out['unencoded'][r['msg']] = out['unencoded'].get(r['msg'], 0) + 1
            if r.get('native_sampled') == 'pass':
                out['unencoded_sampled'] = out.get('unencoded_sampled', 0) + 1
        if 'validated' in r:
            if r['validated']:
                out['validated'] += 1
            else:
                out['tv_mismatch'].append(r['tv_mismatch'])
            if len(out['samples']) < 3:
                out['samples'].append(r['sample'])
    out['left'] = stack
    out['solver_calls'] = I.stats['solver_calls'] - sc0
    out['solver_time'] = I.stats['solver_time'] - st0
    out['funcs_hit'] = set(I.funcs_hit)
    out['models_hit'] = set(I.models_hit)
    out['wall'] = time.time() - t0
    return out


class JobState:
    def __init__(self, idx, job):
        self.idx = idx
        self.job = job
        self.queue = [[]]
        self.inflight = 0
        self.paths = 0
        self.by_status = {}
        self.covers = set()
        self.violations = []
        self.panics = []
        self.unencoded = {}
        self.samples = []
        self.validated = 0
        self.tv_mismatch = []
        self.known = {}
        self.nchecks = 0
        self.ndischarged = 0
        self.steps = 0
        self.branches = 0
        self.solver_calls = 0
        self.solver_time = 0.0
        self.t_start = None
        self.t_end = None
        self.abandoned = False
        self.cpu = 0.0

    @property
    def done(self):
        return not self.queue and self.inflight == 0

    def summary(self):
        j = self.job
        return dict(label=j['label'], harness=j['harness'], params=j.get('shown_params', j['params']), paths=self.paths,
                    by_status=self.by_status, complete=self.done and not self.abandoned,
                    left_unexplored_prefixes=len(self.queue) if self.abandoned else 0, checks=self.nchecks,
                    discharged=self.ndischarged, validated_natively=self.validated, solver_calls=self.solver_calls,
                    solver_time_s=round(self.solver_time, 2), cpu_s=round(self.cpu, 2),
                    wall_s=round((self.t_end or time.time()) - (self.t_start or time.time()), 2), mir_steps=self.steps)


def run_jobs(jobs, init_args, nworkers=16, deadline_s=600, validate_every=25, seed=0, max_violations=8, log=print):
    """jobs: list of dict(harness, params, label[, cap_s]); explores all of them on one pool.
    returns list of JobState"""
    states = [JobState(i, j) for i, j in enumerate(jobs)]
    t0 = time.time()
    funcs_hit, models_hit = set(), set()
    with ProcessPoolExecutor(max_workers=nworkers, initializer=_init, initargs=init_args) as ex:
        futs = {}
        nviol = 0

        def submit():
            # fill the pool: smallest job index first, so that jobs complete in order
            for s in states:
                if s.abandoned:
                    continue
                while s.queue and len(futs) < nworkers * 2:
                    total_q = sum(len(x.queue) for x in states)
                    chunk = 1 if total_q < nworkers * 3 else min(8, max(1, len(s.queue) // nworkers))
                    pref = [s.queue.pop() for _ in range(min(chunk, len(s.queue)))]
                    small = total_q < nworkers * 3
                    f = ex.submit(explore_task, s.idx, s.job['harness'], s.job['params'], pref,
                                  6 if small else 60, 1.0 if small else 4.0, validate_every, seed)
                    futs[f] = s
                    s.inflight += 1
                    if s.t_start is None:
                        s.t_start = time.time()
                if len(futs) >= nworkers * 2:
                    break

        submit()
        last_log = time.time()
        while futs:
            done, _ = wait(list(futs), timeout=5, return_when=FIRST_COMPLETED)
            for f in done:
                s = futs.pop(f)
                s.inflight -= 1
                try:
                    r = f.result()
                except Exception as e:
                    s.unencoded['worker crashed: ' + repr(e)[:200]] = s.unencoded.get('worker crashed', 0) + 1
                    s.abandoned = True
                    continue
                s.paths += r['paths']
                for k, v in r['by_status'].items():
                    s.by_status[k] = s.by_status.get(k, 0) + v
                s.covers |= r['covers']
                s.violations.extend(r['violations'])
                nviol += len(r['violations'])
                s.panics.extend(r['panics'][:max(0, 5 - len(s.panics))])
                for k, v in r['unencoded'].items():
                    s.unencoded[k] = s.unencoded.get(k, 0) + v
                s.unencoded_sampled = getattr(s, 'unencoded_sampled', 0) + r.get('unencoded_sampled', 0)
                s.samples.extend(r['samples'][:max(0, 4 - len(s.samples))])
                s.validated += r['validated']
                s.tv_mismatch.extend(r['tv_mismatch'])
                for role, k in r['known'].items():
                    d = s.known.setdefault(role, dict(n=0, example=k['example']))
                    d['n'] += k['n']
                s.nchecks += r['nchecks']
                s.ndischarged += r['ndischarged']
                s.steps += r['steps']
                s.branches += r['branches']
                s.solver_calls += r['solver_calls']
                s.solver_time += r['solver_time']
                s.cpu += r['wall']
                funcs_hit |= r['funcs_hit']
                models_hit |= r['models_hit']
                if not s.abandoned:
                    s.queue.extend(r['left'])
                if s.done and s.t_end is None:
                    s.t_end = time.time()
                    log(f"  [{s.job['label']}] complete: {s.paths} paths {s.by_status} in {s.t_end - s.t_start:.1f}s")
            now = time.time()
            for s in states:
                cap = s.job.get('cap_s')
                over_job = cap is not None and s.t_start is not None and now - s.t_start > cap
                # a job whose violations keep piling up need not be explored to the end
                if (now - t0 > deadline_s or over_job or len(s.violations) >= max_violations) and not s.done and not s.abandoned:
                    s.abandoned = True
                    s.t_end = now
                    log(f"  [{s.job['label']}] ABANDONED after {s.paths} paths, {len(s.queue)} prefixes left "
                        f"({'violations' if len(s.violations) >= max_violations else 'time cap'})")
            if now - last_log > 30:
                last_log = now
                act = [f"{s.job['label']}:{s.paths}p/{len(s.queue)}q" for s in states if s.t_start and not s.done and not s.abandoned]
                log(f"  ... {now - t0:.0f}s  " + ' '.join(act[:6]))
            submit()
    return states, funcs_hit, models_hit
