"""Harness context: the same harness/oracle code runs
  - symbolically (SymCtx: inputs are z3 terms, branch() forks, check() asks the solver), and
  - concretely (ConcCtx: inputs from a replay file, implementation = native build)."""
import z3
from engine import *
import models
from models import b_eq, b_and, b_or, b_not, utf8_valid
from impl import MirImpl, NativeImpl, ImplPanic

HARNESSES = {}


def harness(name, covers=()):
    def deco(fn):
        fn.covers = tuple(covers)
        HARNESSES[name] = fn
        return fn

    return deco


def ult(a, v):
    return z3.ULT(a, v) if is_sym(a) else a < v


def uge(a, v):
    return z3.UGE(a, v) if is_sym(a) else a >= v


def isin(b, vals):
    return b_or(b_eq(b, v) for v in vals)


def is_ws(b):
    return isin(b, (32, 9, 10))


class SymCtx:
    symbolic = True

    def __init__(self, I):
        self.I = I
        self.impl = MirImpl(I)

    def bytes(self, name, n, utf8=True, exclude=(), only=None):
        bs = self.I.fresh_bytes(name, n)
        if n:
            if only is not None:
                for b in bs:
                    self.I.add(z3.Or(*[b == v for v in only]))
            elif utf8:
                self.I.add(utf8_valid(bs))
            for b in bs:
                for v in exclude:
                    self.I.add(b != v)
        return bs

    def int(self, name, lo, hi):
        """symbolic 64-bit signed integer in [lo, hi]"""
        v = self.I.fresh_int(name, 64)
        self.I.add(z3.And(v >= lo, v <= hi))
        return v

    def choice(self, name, n):
        """concretised choice in range(n): forks"""
        v = self.I.fresh_int(name, 8)
        self.I.add(z3.ULT(v, n))
        for k in range(n - 1):
            if self.I.branch(v == k):
                return k
        return n - 1

    def branch(self, c):
        return self.I.branch(c)

    def assume(self, c):
        if c is True:
            return
        if c is False:
            raise PathAbort()
        if not self.I.branch(c):
            raise PathAbort()

    def constrain(self, c):
        """add an input constraint without forking (the negation is simply outside the explored space)"""
        self.I.add(c)
        self.I.get_model()

    def check(self, cond, msg, role=None):
        self.I.check(cond, msg, role)

    def cover(self, label):
        self.I.cover(label)

    def note(self, k, v):
        self.I.notes[k] = v


def _tobool(c):
    """concrete mode: harness code may still build constant z3 terms"""
    if is_sym(c):
        c = z3.simplify(c)
        if z3.is_true(c):
            return True
        if z3.is_false(c):
            return False
        raise AssertionError('non-constant condition in concrete mode: ' + str(c)[:200])
    return bool(c)


class ConcCtx:
    symbolic = False

    def __init__(self, values, impl):
        self.values = values
        self.impl = impl
        self.covers = set()
        self.notes = {}
        self.nchecks = 0

    def bytes(self, name, n, utf8=True, exclude=(), only=None):
        v = list(self.values[name])
        assert len(v) == n, (name, n, v)
        return v

    def int(self, name, lo, hi):
        v = self.values[name]
        if v >= 1 << 63:
            v -= 1 << 64
        return v

    def choice(self, name, n):
        return self.values[name]

    def branch(self, c):
        return _tobool(c)

    def assume(self, c):
        if not _tobool(c):
            raise PathAbort()

    def constrain(self, c):
        if not _tobool(c):
            raise PathAbort()

    def check(self, cond, msg, role=None):
        self.nchecks += 1
        if not _tobool(cond):
            raise Violation(msg, role() if callable(role) else role, self.values)

    def cover(self, label):
        self.covers.add(label)

    def note(self, k, v):
        self.notes[k] = v


def show(bs):
    """human-readable rendering of a concrete byte list"""
    try:
        return bytes(bs).decode()
    except Exception:
        return repr(bytes(bs))
