"""Two ways to run the implementation, with identical observable shapes:

  MirImpl(I)     - the real code's MIR under the symbolic interpreter (bytes may be z3 terms)
  NativeImpl()   - the real code compiled natively (native_obs), concrete bytes only

Every MirImpl call is logged (fn, args, result) so a path's model can be replayed natively and the
observables compared (translation validation)."""
import json, os, subprocess, os, select, time
import z3
from engine import *
import models
from chrono_stub import mk_instant

TL, RM = 'chiritori::TimeLimitedConfiguration', 'chiritori::RemovalMarkerConfiguration'
CC = 'chiritori::ChiritoriConfiguration'


class ImplPanic(Exception):
    pass


def default_cfg(**kw):
    c = dict(tl_tag=list(b'time-limited'), tl_offset=list(b'+00:00'), now=1704067200, rm_tag=list(b'removal-marker'),
             targets=[])
    c.update(kw)
    return c


class MirImpl:
    def __init__(self, I):
        self.I = I
        self.log = []

    def _rec(self, fn, args, res):
        self.log.append((fn, args, res))
        return res

    def _call(self, name, args):
        # non-termination guard: the step budget of a path grows with the size of the texts handed to the call
        size = sum(len(a.buf) for a in args if isinstance(a, (StrRef, StringObj))) + sum(len(a.cell[0].buf) for a in args if isinstance(a, RcObj) and hasattr(a.cell[0], 'buf'))
        self.I.step_limit = max(getattr(self.I, 'step_limit', 0), 3_000_000, 6000 * size)
        try:
            return self.I.call(name, args)
        except RustPanic as e:
            raise ImplPanic(str(e))

    # ---- front end ----
    def _tok(self, src, t):
        S = self.I.crate.structs['tokenizer::Token']
        g = lambda n: t[S.index(n)]
        v = g('value')
        same = v.buf is src
        return dict(kind='E' if g('kind').variant == 'Element' else 'T', bs=g('byte_start'), be=g('byte_end'),
                    cs=g('start'), ce=g('end'), vs=v.start if same else -1, ve=v.end if same else -1)

    def _span(self, src, s):
        return [s.start, s.end] if s.buf is src else [-1, -1]

    def _el(self, src, e):
        S = self.I.crate.structs['element_parser::Element']
        A = self.I.crate.structs['element_parser::Attribute']
        name = e[S.index('name')]
        attrs = e[S.index('attrs')]
        out = []
        for at in attrs.items:
            v = at[A.index('value')]
            out.append([self._span(src, at[A.index('name')]), None if v.variant == 'None' else self._span(src, v.fields[0])])
        return dict(name=self._span(src, name), attrs=out)

    def tokenize(self, src, ds, de, raw=False):
        toks = self._call('tokenizer::tokenize', [StrRef(src, 0, len(src)), StrRef(ds, 0, len(ds)), StrRef(de, 0, len(de))])
        res = [self._tok(src, t) for t in toks.items]
        self._rec('tokenize', dict(src=src, ds=ds, de=de), dict(tokens=res))
        return (res, toks) if raw else res

    def tags(self, src, ds, de):
        toks = self._call('tokenizer::tokenize', [StrRef(src, 0, len(src)), StrRef(ds, 0, len(ds)), StrRef(de, 0, len(de))])
        tl = [self._tok(src, t) for t in toks.items]
        tags = []
        for i in range(len(toks.items)):
            r = self._call('element_parser::parse', [Ref(Slot(toks.items, i))])
            tags.append(None if r.variant == 'None' else self._el(src, r.fields[0]))
        res = dict(tokens=tl, tags=tags)
        self._rec('tags', dict(src=src, ds=ds, de=de), res)
        return res

    def _parts(self, src, toks, parts):
        out = []
        E = self.I.crate.structs['parser::Element']
        for p in parts.items:
            if p.variant == 'Text':
                tr = p.fields[0][0]
                out.append(['T', tr.slot.k])
            else:
                e = p.fields[0]
                out.append(['E', e[E.index('start_token')].slot.k, e[E.index('end_token')].slot.k,
                            self._el(src, e[E.index('start_element')]), self._parts(src, toks, e[E.index('children')])])
        return out

    def tree(self, src, ds, de):
        toks = self._call('tokenizer::tokenize', [StrRef(src, 0, len(src)), StrRef(ds, 0, len(ds)), StrRef(de, 0, len(de))])
        tl = [self._tok(src, t) for t in toks.items]
        parts = self._call('parser::parse', [Ref(Slot([toks], 0))])
        res = dict(tokens=tl, tree=self._parts(src, toks, parts))
        self._rec('tree', dict(src=src, ds=ds, de=de), res)
        return res

    # ---- pipeline ----
    def _cfg(self, cfg):
        I = self.I
        tl = I.mk_struct(TL, tag_name=StringObj(list(cfg['tl_tag'])), time_offset=StringObj(list(cfg['tl_offset'])),
                         current=mk_instant(cfg['now'], cfg.get('now_ns', 0)))
        rm = I.mk_struct(RM, tag_name=StringObj(list(cfg['rm_tag'])),
                         targets=SetObj([StringObj(list(t)) for t in cfg['targets']]))
        return I.mk_struct(CC, time_limited_configuration=tl, removal_marker_configuration=rm)

    def clean(self, src, ds, de, cfg):
        content = RcObj(StringObj(src))
        out = self._call('chiritori::clean', [content, Agg([StringObj(list(ds)), StringObj(list(de))]), self._cfg(cfg)])
        res = dict(out=list(out.buf))
        self._rec('clean', dict(src=list(src), ds=ds, de=de, cfg=cfg), res)
        return res['out']

    def list(self, src, ds, de, cfg, all=False, format='json', raw=False):
        content = RcObj(StringObj(src))
        fmt = Enum('chiritori::ListFormat', 'JSON' if format == 'json' else 'PrettyString', [])
        r = self._call('chiritori::list_all' if all else 'chiritori::list',
                       [content, Agg([StringObj(list(ds)), StringObj(list(de))]), self._cfg(cfg), fmt])
        if r.variant == 'Err':
            res = dict(err='ListError')
        elif format == 'json' and raw:
            res = dict(out=list(r.fields[0].buf))
        elif format == 'json':
            res = dict(items=r.fields[0].meta)
        else:
            res = dict(out=list(r.fields[0].buf))
        self._rec('list', dict(src=list(src), ds=ds, de=de, cfg=cfg, all=all, format=format, raw=raw), res)
        return res

    def format(self, content, pos):
        F = 'code::formatter::'
        box = lambda ty: mk_box(TAgg(ty, []))
        f = [box(F + 'indent_remover::IndentRemover'), box(F + 'empty_line_remover::EmptyLineRemover'),
             box(F + 'prev_line_break_remover::PrevLineBreakRemover'), box(F + 'next_line_break_remover::NextLineBreakRemover')]
        b = [box(F + 'block_indent_remover::BlockIndentRemover')]
        rp = [Agg([p, NONE() if pr is None else some(pr)]) for p, pr in pos]
        out = self._call('code::formatter::format', [StrRef(content, 0, len(content)), SliceRef(rp, 0, len(rp)),
                                                     SliceRef(f, 0, 4), SliceRef(b, 0, 1)])
        res = dict(out=list(out.buf))
        self._rec('format', dict(content=list(content), pos=[[p, q] for p, q in pos]), res)
        return res['out']

    def is_removal(self, to, offset, now, has_to=True, now_ns=0):
        I = self.I
        A = 'element_parser::Attribute'
        attrs = []
        if has_to:
            attrs.append(I.mk_struct(A, name=cstr('to'), value=NONE() if to is None else some(StrRef(to, 0, len(to)))))
        el = I.mk_struct('element_parser::Element', name=cstr('t'), attrs=VecObj(attrs))
        ev = I.mk_struct('code::remover::removal_evaluator::time_limited_evaluator::TimeLimitedEvaluator',
                         current_time=mk_instant(now, now_ns), time_offset=StringObj(list(offset)))
        key = ('code::remover::removal_evaluator::time_limited_evaluator::TimeLimitedEvaluator', 'RemovalEvaluator', 'is_removal')
        r = self._call(I.impls[key], [Ref(Slot([ev], 0)), Ref(Slot([el], 0))])
        self._rec('is_removal', dict(to=to, offset=offset, now=now, has_to=has_to, now_ns=now_ns), dict(out=r))
        return r

    def pretty_item(self, content, start, end, is_removal, coloring, line_range):
        lr = NONE() if line_range is None else some(Agg([line_range[0], line_range[1]]))
        out = self._call('code::list::build_pretty_string_item',
                         [StrRef(content, 0, len(content)), start, end, is_removal, coloring, lr])
        res = dict(out=list(out.buf))
        self._rec('pretty_item', dict(content=list(content), start=start, end=end, is_removal=is_removal,
                                      coloring=coloring, line_range=line_range), res)
        return res['out']


def _mir_run_cli(self, job):
    import cli
    res = cli.MirCli(self.I).run(job)
    if 'time-limited-current' in job['opts'] and not any(is_sym(b) for v in job['opts']['time-limited-current'] for b in v):
        # (without an explicit current time the real binary reads the wall clock: not comparable)
        self._rec('run_cli', dict(job=job), dict(exit=res['exit'], stdout=res['stdout'], files=res['files']))
    return res


MirImpl.run_cli = _mir_run_cli


# serde_json::to_string::<Vec<ListItem>> stub: keeps the structure (DESIGN.md §4.4)
def _serde_to_string(I, a):
    v = deref(a[0])
    L = I.crate.structs['code::list::ListItem']
    items = []
    for it in v.items:
        lr = it[L.index('line_range')]
        items.append(dict(line_range=None if lr.variant == 'None' else [lr.fields[0][0], lr.fields[0][1]],
                          annotated_code_block=list(it[L.index('annotated_code_block')].buf),
                          current_status=it[L.index('current_status')].variant))
    text = []
    if getattr(I, 'json_text', False):
        text = json_text(I, items)
    return ok(StringObj(text, meta=items))


def json_escape(I, bs):
    out = [34]
    for b in bs:
        if is_sym(b):
            if I.branch(z3.Or(b == 34, b == 92, z3.ULT(b, 0x20))):
                raise Unsupported('JSON escaping of a symbolic special byte')
            out.append(b)
        elif b == 34 or b == 92:
            out += [92, b]
        elif b < 0x20:
            out += {8: list(b'\\b'), 9: list(b'\\t'), 10: list(b'\\n'), 12: list(b'\\f'), 13: list(b'\\r')}.get(b, list(b'\\u%04x' % b))
        else:
            out.append(b)
    return out + [34]


def json_text(I, items):
    """compact serde_json rendering of Vec<ListItem> (field order = declaration order)"""
    out = [91]
    for k, it in enumerate(items):
        if k:
            out.append(44)
        lr = it['line_range']
        out += list(b'{"line_range":') + (list(b'null') if lr is None else list(('[%d,%d]' % (lr[0], lr[1])).encode()))
        out += list(b',"annotated_code_block":') + json_escape(I, it['annotated_code_block'])
        out += list(b',"current_status":"') + list(it['current_status'].encode()) + list(b'"}')
    return out + [93]


models.EXACT['serde_json::to_string'] = _serde_to_string


class NativeImpl:
    """one native_obs process per profile; a request that panics or hangs is reported, the process survives panics"""

    def __init__(self, binary, timeout=30.0):
        self.binary = binary
        self.timeout = timeout
        self.p = None
        self.tz = None        # a job may ask for another process time zone (params['tz']): one observer process per zone
        self._procs = {}

    def _start(self):
        env = dict(os.environ)
        if self.tz:
            env['TZ'] = self.tz
        self.p = subprocess.Popen([self.binary], stdin=subprocess.PIPE, stdout=subprocess.PIPE, stderr=subprocess.DEVNULL, env=env)

    def request(self, req):
        if getattr(self, '_cur_tz', None) != self.tz:
            self._procs[getattr(self, '_cur_tz', None)] = self.p
            self.p = self._procs.get(self.tz)
            self._cur_tz = self.tz
        if self.p is None or self.p.poll() is not None:
            self._start()
        self.p.stdin.write((json.dumps(req) + '\n').encode())
        self.p.stdin.flush()
        r, _, _ = select.select([self.p.stdout], [], [], self.timeout)
        if not r:
            self.p.kill()
            self.p = None
            raise ImplPanic('native: no answer within %.0fs (non-termination?)' % self.timeout)
        line = self.p.stdout.readline()
        if not line:
            self.p = None
            raise ImplPanic('native: process died (abort / stack overflow)')
        res = json.loads(line)
        if 'panic' in res:
            raise ImplPanic('native panic: ' + res['panic'])
        if 'error' in res:
            raise RuntimeError(res['error'])
        return res

    def close(self):
        if self.p is not None:
            try:
                self.p.stdin.close()
                self.p.wait(timeout=2)
            except Exception:
                self.p.kill()
            self.p = None

    def tokenize(self, src, ds, de):
        return self.request(dict(fn='tokenize', src=src, ds=ds, de=de))['tokens']

    def tags(self, src, ds, de):
        return self.request(dict(fn='tags', src=src, ds=ds, de=de))

    def tree(self, src, ds, de):
        return self.request(dict(fn='tree', src=src, ds=ds, de=de))

    def clean(self, src, ds, de, cfg):
        return self.request(dict(fn='clean', src=src, ds=ds, de=de, cfg=cfg))['out']

    def list(self, src, ds, de, cfg, all=False, format='json', raw=False):
        r = self.request(dict(fn='list', src=src, ds=ds, de=de, cfg=cfg, all=all, format=format))
        if 'err' in r:
            return r
        if format == 'json' and not raw:
            items = json.loads(bytes(r['out']).decode())
            for it in items:
                it['annotated_code_block'] = list(it['annotated_code_block'].encode())
            return dict(items=items)
        return r

    def format(self, content, pos):
        return self.request(dict(fn='format', content=content, pos=[[p, q] for p, q in pos]))['out']

    def is_removal(self, to, offset, now, has_to=True, now_ns=0):
        return self.request(dict(fn='is_removal', to=to, offset=offset, now=now, has_to=has_to, now_ns=now_ns))['out']

    def pretty_item(self, content, start, end, is_removal, coloring, line_range):
        return self.request(dict(fn='pretty_item', content=content, start=start, end=end, is_removal=is_removal,
                                 coloring=coloring, line_range=line_range))['out']

    def run_cli(self, job):
        """the real binary, once per TZ setting of the job; the results must not depend on TZ"""
        res = None
        for tz in job.get('tz_list', ['UTC']):
            r = self.cli.run(job, tz)
            if res is None:
                res = r
            elif (r['exit'], r['stdout'], r['files']) != (res['exit'], res['stdout'], res['files']):
                res = dict(res, tz_differs=tz)
        return res

    def replay_logged(self, fn, args):
        """re-run a logged MirImpl call natively; returns the same dict shape MirImpl logged"""
        if fn == 'tokenize':
            return dict(tokens=self.tokenize(**args))
        if fn == 'tags':
            return self.tags(**args)
        if fn == 'tree':
            return self.tree(**args)
        if fn == 'clean':
            return dict(out=self.clean(**args))
        if fn == 'list':
            return self.list(**args)
        if fn == 'format':
            return dict(out=self.format(args['content'], args['pos']))
        if fn == 'is_removal':
            return dict(out=self.is_removal(**args))
        if fn == 'pretty_item':
            return dict(out=self.pretty_item(**args))
        if fn == 'run_cli':
            r = self.run_cli(args['job'])
            return dict(exit=r['exit'], stdout=r['stdout'], files=r['files'])
        raise KeyError(fn)


def concretize(obj, m):
    """evaluate every z3 term inside a nested structure under model m"""
    if isinstance(obj, z3.ExprRef):
        v = m.eval(obj, model_completion=True)
        if z3.is_bool(v):
            return z3.is_true(v)
        return v.as_long()
    if isinstance(obj, dict):
        return {k: concretize(v, m) for k, v in obj.items()}
    if isinstance(obj, (list, tuple)):
        return [concretize(v, m) for v in obj]
    return obj
