"""Throwaway prototype: parse rustc -Zunpretty=mir text into Python structures."""
import re, sys

CHAR_LIT = re.compile(r"'(\\u\{[0-9a-fA-F]+\}|\\.|[^\\'])'")

def split_top(s, sep=','):
    """split s at top-level separators, respecting () [] {} <> and literals"""
    out, depth, i, start, n = [], 0, 0, 0, len(s)
    while i < n:
        c = s[i]
        if c == '"':
            i += 1
            while s[i] != '"':
                if s[i] == '\\': i += 1
                i += 1
        elif c == "'":
            m = CHAR_LIT.match(s, i)
            if m: i = m.end() - 1
        elif c in '([{': depth += 1
        elif c in ')]}': depth -= 1
        elif c == '<': depth += 1
        elif c == '>':
            if i > 0 and s[i-1] == '-': pass   # ->
            else: depth -= 1
        elif c == sep and depth == 0:
            out.append(s[start:i].strip()); start = i + 1
        i += 1
    last = s[start:].strip()
    if last: out.append(last)
    return out

def match_close(s, i):
    """s[i] is an opening bracket; return index of matching close"""
    depth, n = 0, len(s)
    while i < n:
        c = s[i]
        if c == '"':
            i += 1
            while s[i] != '"':
                if s[i] == '\\': i += 1
                i += 1
        elif c == "'":
            m = CHAR_LIT.match(s, i)
            if m: i = m.end() - 1
        elif c in '([{': depth += 1
        elif c in ')]}':
            depth -= 1
            if depth == 0: return i
        elif c == '<': depth += 1
        elif c == '>':
            if not (i > 0 and s[i-1] == '-'):
                depth -= 1
                if depth == 0: return i
        i += 1
    raise ValueError('unbalanced: ' + s)

def strip_generics(p):
    """remove ::<...> generic args and lifetimes from a path; keep leading <T as Trait> qualifier (cleaned)."""
    out, i, n = [], 0, len(p)
    if p.startswith('<'):
        j = match_close(p, 0)
        inner = p[1:j]
        parts = split_as(inner)
        out.append('<' + ' as '.join(strip_generics(x) for x in parts) + '>')
        i = j + 1
    while i < n:
        if p.startswith('::<impl ', i):
            j = match_close(p, i + 2)
            inner = p[i+8:j]
            out.append('::<impl [T]>' if inner.startswith('[') else '::<impl ' + inner + '>')
            i = j + 1
        elif p.startswith('::<', i):
            j = match_close(p, i + 2); i = j + 1
        elif p[i] == '<':
            j = match_close(p, i); i = j + 1
        else:
            out.append(p[i]); i += 1
    return ''.join(out)

def split_as(inner):
    depth = 0
    for i, c in enumerate(inner):
        if c in '<([{': depth += 1
        elif c in '>)]}' and not (c == '>' and inner[i-1] == '-'): depth -= 1
        elif depth == 0 and inner.startswith(' as ', i):
            return [inner[:i], inner[i+4:]]
    return [inner]

# ---------------- places / operands / rvalues -----------------
def parse_place(s, i=0):
    n = len(s)
    if s[i] == '_':
        j = i + 1
        while j < n and s[j].isdigit(): j += 1
        pl = ('local', int(s[i+1:j])); i = j
    elif s[i] == '(':
        if s[i+1] == '*':
            inner, j = parse_place(s, i + 2)
            assert s[j] == ')', s
            pl = ('deref', inner); i = j + 1
        else:
            inner, j = parse_place(s, i + 1)
            if s.startswith(' as ', j):
                k = s.index(')', j)
                pl = ('downcast', inner, s[j+4:k]); i = k + 1
            elif s[j] == '.':
                k = j + 1
                while s[k].isdigit(): k += 1
                fld = int(s[j+1:k])
                assert s[k] == ':', s
                close = match_close(s, i)
                pl = ('field', inner, fld, s[k+1:close].strip()); i = close + 1
            else:
                raise ValueError('place? ' + s[i:])
    else:
        raise ValueError('place? ' + s[i:])
    while i < n and s[i] == '[':
        j = s.index(']', i)
        idx = s[i+1:j]
        if idx.startswith('_'): pl = ('index', pl, int(idx[1:]))
        elif ' of ' in idx:
            a = idx.split(' of ')[0]
            pl = ('constindex', pl, int(a))
        else: pl = ('subslice', pl, idx)
        i = j + 1
    return pl, i

def parse_operand(s):
    s = s.strip()
    if s.startswith('no_retag '): s = s[9:]
    if s.startswith('copy '):
        pl, j = parse_place(s, 5); assert j == len(s), s
        return ('copy', pl)
    if s.startswith('move '):
        pl, j = parse_place(s, 5); assert j == len(s), (s, j)
        return ('move', pl)
    if s.startswith('const '):
        return ('const', s[6:])
    if re.match(r'^[<A-Za-z_][\w:<>&\[\] ,\'()]*$', s) and not s.startswith(('copy ', 'move ')):
        return ('const', s)     # bare fn item used as a value, e.g. `core::str::<impl str>::trim`, `load_names`
    raise ValueError('operand? ' + s)

BINOPS = {'Add','Sub','Mul','Div','Rem','BitXor','BitAnd','BitOr','Shl','Shr','Eq','Lt','Le','Ne','Ge','Gt','Cmp','Offset',
          'AddWithOverflow','SubWithOverflow','MulWithOverflow','AddUnchecked','SubUnchecked','MulUnchecked','ShlUnchecked','ShrUnchecked'}
UNOPS = {'Not','Neg','PtrMetadata'}

def parse_rvalue(s):
    s = s.strip()
    if s.startswith('no_retag '): s = s[9:]
    m = re.match(r'(copy|move|const) ', s)
    if m:
        # maybe cast
        mc = re.search(r' as (.*) \((\w+(?:\([^)]*\))?)\)$', s)
        if mc and (s.startswith('const') is False or True):
            head = s[:mc.start()]
            try:
                return ('cast', parse_operand(head), mc.group(1), mc.group(2))
            except Exception:
                pass
        return ('use', parse_operand(s))
    if s.startswith('&'):
        t = s[1:]
        kind = 'shared'
        if t.startswith('mut '): t = t[4:]; kind = 'mut'
        elif t.startswith('raw const (fake) '): t = t[17:]; kind = 'raw'
        elif t.startswith('raw const '): t = t[10:]; kind = 'raw'
        elif t.startswith('raw mut '): t = t[8:]; kind = 'rawmut'
        elif t.startswith('fake shallow '): t = t[13:]
        pl, j = parse_place(t); assert j == len(t), s
        return ('ref', kind, pl)
    m = re.match(r'(\w+)\(', s)
    if m and s.endswith(')'):
        name = m.group(1)
        inner = s[m.end():-1]
        if name in BINOPS:
            a, b = split_top(inner)
            return ('binop', name, parse_operand(a), parse_operand(b))
        if name in UNOPS:
            return ('unop', name, parse_operand(inner))
        if name == 'discriminant':
            pl, j = parse_place(inner); return ('discriminant', pl)
        if name == 'Len':
            pl, j = parse_place(inner); return ('len', pl)
        if name == 'CopyForDeref':
            pl, j = parse_place(inner); return ('use', ('copy', pl))
    if s == '()': return ('tuple', [])
    if s.startswith('(') and match_close(s, 0) == len(s) - 1:
        return ('tuple', [parse_operand(x) for x in split_top(s[1:-1])])
    if s.startswith('[') and s.endswith(']'):
        inner = s[1:-1]
        parts = split_top(inner, ';')
        if len(parts) == 2:
            return ('repeat', parse_operand(parts[0]), parts[1])
        return ('array', [parse_operand(x) for x in split_top(inner)])
    if s.startswith('{closure@'):
        j = match_close(s, 0)
        ctype = s[:j+1]
        rest = s[j+1:].strip()
        caps = []
        if rest.startswith('{'):
            for f in split_top(rest[1:-1]):
                k = f.index(':')
                caps.append(parse_operand(f[k+1:]))
        return ('closure', ctype, caps)
    # ADT aggregate
    # find the field part: ' { ... }' at the end or '(...)' at the end
    if s.endswith('}'):
        # find matching open brace for last }
        depth = 0
        for i in range(len(s) - 1, -1, -1):
            if s[i] == '}': depth += 1
            elif s[i] == '{':
                depth -= 1
                if depth == 0: break
        path = s[:i].strip()
        fields = []
        for f in split_top(s[i+1:-1]):
            k = f.index(':')
            fields.append(parse_operand(f[k+1:]))
        return ('adt', strip_generics(path), fields)
    if s.endswith(')'):
        depth = 0
        for i in range(len(s) - 1, -1, -1):
            if s[i] == ')': depth += 1
            elif s[i] == '(':
                depth -= 1
                if depth == 0: break
        path = s[:i].strip()
        return ('adt', strip_generics(path), [parse_operand(x) for x in split_top(s[i+1:-1])])
    return ('adt', strip_generics(s), [])

def parse_targets(t):
    """'[return: bb1, unwind continue]' or 'bb3' or 'unwind continue'"""
    t = t.strip()
    res = {}
    if t.startswith('['):
        for part in split_top(t[1:-1]):
            if ':' in part:
                k, v = part.split(':', 1); res[k.strip()] = v.strip()
    elif t.startswith('bb'):
        res['return'] = t
    return res

def parse_terminator(s):
    s = s.strip().rstrip(';')
    if s == 'return': return ('return',)
    if s == 'unreachable': return ('unreachable',)
    if s.startswith('resume'): return ('resume',)
    if s.startswith('goto -> '): return ('goto', s[8:])
    if s.startswith('switchInt('):
        j = match_close(s, 9)
        op = parse_operand(s[10:j])
        tg = s[j+1:].strip(); assert tg.startswith('-> ['), s
        cases, other = [], None
        for part in split_top(tg[4:-1]):
            k, v = part.split(':'); k = k.strip(); v = v.strip()
            if k == 'otherwise': other = v
            else: cases.append((int(re.sub(r'_\w+$', '', k)), v))
        return ('switch', op, cases, other)
    if s.startswith('drop('):
        j = match_close(s, 4)
        pl, _ = parse_place(s[5:j])
        return ('drop', pl, parse_targets(s[j+1:].strip()[3:]).get('return'))
    if s.startswith('assert('):
        j = match_close(s, 6)
        parts = split_top(s[7:j])
        c = parts[0]; neg = False
        if c.startswith('!'): neg = True; c = c[1:]
        return ('assert', parse_operand(c), not neg, parts[1], parse_targets(s[j+1:].strip()[3:]).get('success'))
    # call
    k = s.rfind(' -> ')
    head, tail = s[:k], s[k+4:]
    targets = parse_targets(tail)
    dest = None
    m = re.match(r'(\(.*?\)|_\d+|\(\*.*?\))\s=\s', head)
    # robust dest parse
    if head[0] in '_(':
        try:
            pl, j = parse_place(head)
            if head[j:j+3] == ' = ':
                dest = pl; head = head[j+3:]
        except Exception:
            pass
    # head = FUNC(ARGS)
    assert head.endswith(')'), s
    depth = 0
    for i in range(len(head) - 1, -1, -1):
        if head[i] == ')': depth += 1
        elif head[i] == '(':
            depth -= 1
            if depth == 0: break
    func = head[:i]
    args = [parse_operand(x) for x in split_top(head[i+1:-1])]
    return ('call', dest, func, args, targets.get('return'))

def parse_statement(s):
    s = s.strip().rstrip(';')
    if s.startswith(('StorageLive', 'StorageDead', 'nop', 'FakeRead', 'PlaceMention', 'AscribeUserType', 'Retag', 'Coverage', 'ConstEvalCounter', 'Deinit', 'BackwardIncompatibleDropHint')):
        return ('nop',)
    if s.startswith('discriminant('):
        j = match_close(s, 12)
        pl, _ = parse_place(s[13:j])
        return ('setdisc', pl, int(s[j+1:].strip()[2:]))
    if s.startswith('assume('):
        return ('nop',)
    pl, j = parse_place(s)
    assert s[j:j+3] == ' = ', s
    return ('assign', pl, parse_rvalue(s[j+3:]))

class Func:
    pass

def parse_mir(text):
    funcs = {}
    lines = text.split('\n')
    i, n = 0, len(lines)
    while i < n:
        ln = lines[i]
        if (ln.startswith('fn ') or ln.startswith('const ') or ln.startswith('static ')) and ln.rstrip().endswith('{'):
            f = Func(); f.locals = {}; f.blocks = {}; f.raw_header = ln
            if ln.startswith('fn '):
                k = ln.index('(') if not ln.startswith('fn <') else None
                # find param list: first '(' at top-level after name. name may contain '(' ? no. but '<impl at ..>' no parens; {closure#0} ok
                # name ends at first '(' that is followed by '_1:' or ')'
                m = re.search(r'\((_1: |\) -> |\) \{)', ln)
                f.name = ln[3:m.start()]
                close = match_close(ln, m.start())
                params = split_top(ln[m.start()+1:close])
                f.params = []
                for p in params:
                    a, t = p.split(':', 1); f.params.append(int(a.strip()[1:])); f.locals[int(a.strip()[1:])] = t.strip()
                rest = ln[close+1:].strip()
                f.ret = rest[3:-1].strip() if rest.startswith('->') else '()'
            else:
                m = re.match(r'(const|static) (.*::promoted\[\d+\]): (.*) = \{$', ln.rstrip()) or re.match(r'(const|static) (.*?): (.*) = \{$', ln.rstrip())
                f.name = m.group(2); f.params = []; f.ret = m.group(3)
            f.locals[0] = f.ret
            i += 1
            cur = None
            while not lines[i].startswith('}'):
                l = lines[i].strip()
                m = re.match(r'let (mut )?_(\d+): (.*);$', l)
                if m: f.locals[int(m.group(2))] = m.group(3)
                else:
                    m = re.match(r'(bb\d+)( \(cleanup\))?: \{$', l)
                    if m:
                        cur = m.group(1); body = []
                        i += 1
                        while lines[i].strip() != '}':
                            body.append(lines[i].strip()); i += 1
                        stmts = []
                        for x in body[:-1]:
                            try:
                                stmts.append(parse_statement(x))
                            except Exception as e:   # a form the parser does not know: fails only if a path executes it
                                stmts.append(('unsupported', x.strip()[:160]))
                        try:
                            term = parse_terminator(body[-1])
                        except Exception as e:
                            term = ('unsupported', body[-1].strip()[:160])
                        f.blocks[cur] = (stmts, term, body)
                i += 1
            funcs[f.name] = f
        i += 1
    return funcs

if __name__ == '__main__':
    fs = parse_mir(open(sys.argv[1]).read())
    print(len(fs), 'functions parsed')
    nst = sum(len(b[0]) for f in fs.values() for b in f.blocks.values())
    print(nst, 'statements')
