"""writes /verif/MANIFEST.json from registry.PROPS (so the two cannot drift apart)"""
import json, os, sys
HERE = os.path.dirname(os.path.abspath(__file__))
sys.path.insert(0, HERE)
import registry

ALL = ['C%02d' % i for i in range(1, 21)]
NA = registry.NOT_APPLICABLE if hasattr(registry, 'NOT_APPLICABLE') else {}
checks = []
for pid in ALL:
    if pid not in registry.PROPS:
        continue
    s = registry.PROPS[pid]
    checks.append(dict(
        property_id=pid, quick_cmd=f'./check {pid} --tier quick', thorough_cmd=f'./check {pid} --tier thorough',
        evidence_file=f'/verif/evidence/{pid}.json', replay_cmd_template=f'./check {pid} --replay {{path}}', engine='mirsym',
        level_claimed=dict(category='model_checking', text=s.get('level_text', s['explanation']), design_ref=s.get('design_ref', 'DESIGN.md §6')),
        level_note=s.get('level_note', 'Bounded: holds for every input within the sizes listed in the evidence (coverage.jobs), nothing beyond. '
                          'Trusted base: rustc MIR dump, the MIR interpreter and its std models (mirsym/models.py), z3; each run re-validates the '
                          'interpreter against the native build on concrete inputs and on sampled path models.'),
        technique=s.get('technique', 'bounded symbolic execution of rustc MIR (own encoder) with z3 deciding every path obligation; native replay of counterexamples')))
na = [dict(property_id=p, reason=NA.get(p, 'check not built yet in this round (planned: see DESIGN.md §6); nothing is claimed')) for p in ALL if p not in registry.PROPS]
m = dict(
    version=1,
    setup_cmd='cd /verif && CARGO_NET_OFFLINE=true python3-vt mirsym/build.py',
    hooks=dict(guard='none', enable='no hooks: harnesses drive public API only; MIR is dumped from the unmodified sources',
               baseline_off_cmd='cd /repo && cargo test --workspace --no-fail-fast --offline', source_commits=[], add_only=True),
    engines=[dict(name='mirsym', path='/verif/mirsym', serves_properties=[c['property_id'] for c in checks],
                  kind_free_text='path-wise symbolic executor for rustc MIR text (-Zunpretty=mir of /repo working tree), z3 as decision procedure, '
                                 'native observer binary for counterexample replay and translation validation'),
             dict(name='kani-leaves', path='/verif/kani', serves_properties=['C13', 'C14'],
                  kind_free_text='cargo kani 0.68 / CBMC 6.11 proofs of leaf invariants (seam formatters cover only blanks, finders return line breaks); '
                                 'second engine in the thorough tier only, never the deciding one')],
    checks=checks, not_applicable=na,
    notes='All checks: exit 0 = held on everything explored; exit 1 + VIOLATION line = natively reproduced counterexample; '
          'exit 2 = the check itself is broken/inconclusive (build failure, encoder/native disagreement, vacuity), never a verdict.')
json.dump(m, open(os.path.join(os.path.dirname(HERE), 'MANIFEST.json'), 'w'), indent=1)
print('MANIFEST.json:', len(checks), 'checks,', len(na), 'not applicable')
