"""Trusted base: models of the core/alloc/std functions called by chiritori's MIR (see DESIGN.md §4.3)."""
import re
import z3
from engine import *

EXACT = {}
ITER_METHODS = {}


def model(*names):
    def deco(fn):
        for n in names:
            EXACT[n] = fn
        return fn

    return deco


def itermethod(*names):
    def deco(fn):
        for n in names:
            ITER_METHODS[n] = fn
        return fn

    return deco


OPS_METHODS = {'add': 'Add', 'sub': 'Sub', 'mul': 'Mul', 'div': 'Div', 'rem': 'Rem', 'bitand': 'BitAnd', 'bitor': 'BitOr',
               'bitxor': 'BitXor', 'shl': 'Shl', 'shr': 'Shr'}


class CharSetPattern(Exception):
    """a [char; N] / &[char] pattern: any of the listed chars"""

    def __init__(self, alts):
        self.alts = alts


class Models:
    def __init__(self):
        self.extra = {}

    def lookup(self, name):
        if name in self.extra:
            return self.extra[name]
        mi = re.match(r'(?:core|std)::num::<impl (\w+)>::(\w+)$', name)
        if mi and mi.group(1) in INT_W and mi.group(2) in INT_METHODS:
            return lambda I, a, ty=mi.group(1), meth=mi.group(2): INT_METHODS[meth](I, ty, a)
        if name in EXACT:
            return EXACT[name]
        # the same item is spelled core:: or std:: depending on where it is re-exported
        for a_, b_ in (('std::', 'core::'), ('core::', 'std::'), ('alloc::', 'std::')):
            if name.startswith(a_) and (b_ + name[len(a_):]) in EXACT:
                return EXACT[b_ + name[len(a_):]]
        m = re.match(r'<(.*) as (.*)>::(\w+)$', name)
        if m:
            ty, trait, meth = m.group(1), m.group(2), m.group(3)
            if trait in ('std::iter::Iterator', 'std::iter::DoubleEndedIterator', 'std::iter::ExactSizeIterator') \
                    and meth in ITER_METHODS:
                return ITER_METHODS[meth]
            if trait == 'std::iter::IntoIterator' and meth == 'into_iter':
                return into_iter
            if trait == 'std::clone::Clone' and meth == 'clone':
                return lambda I, a: clone_val(deref(a[0]))
            if trait == 'std::cmp::PartialEq' and meth in ('eq', 'ne'):
                neg = meth == 'ne'

                def eqm(I, a, ty=ty, neg=neg):
                    x, y = a
                    if ty.startswith('&'):
                        key = (ty.lstrip('&').strip(), 'PartialEq', 'eq')
                        if key in I.impls:
                            r = I.call(I.impls[key], [x.slot.get() if isinstance(deref1(x), Ref) else x,
                                                      y.slot.get() if isinstance(deref1(y), Ref) else y])
                            return b_not(r) if neg else r
                    r = val_eq(I, x, y)
                    return b_not(r) if neg else r

                return eqm
            if trait in ('std::default::Default',) and meth == 'default':
                return lambda I, a, ty=ty: default_val(I, ty)
            if trait in ('std::ops::Deref', 'std::ops::DerefMut', 'std::convert::AsRef', 'std::borrow::Borrow',
                         'std::convert::AsMut', 'std::borrow::BorrowMut') and meth in (
                    'deref', 'deref_mut', 'as_ref', 'borrow', 'as_mut', 'borrow_mut'):
                return generic_deref
            if trait == 'std::string::ToString' and meth == 'to_string':
                return to_string
            if trait in ('std::convert::From', 'std::convert::Into') and meth in ('from', 'into'):
                return conv_from
            if trait == 'std::borrow::ToOwned' and meth == 'to_owned':
                return to_owned
            if trait == 'std::iter::Extend' and meth == 'extend':
                return vec_extend
            if trait in ('std::ops::Index', 'std::ops::IndexMut') and meth in ('index', 'index_mut'):
                return generic_index
            if trait == 'std::cmp::Ord' and meth in ('min', 'max', 'cmp'):
                return {'min': ord_min, 'max': ord_max, 'cmp': ord_cmp}[meth]
            if trait == 'std::cmp::PartialOrd' and meth in ('lt', 'le', 'gt', 'ge'):
                return lambda I, a, meth=meth: ord_rel(I, a, meth)
            if trait.startswith('std::ops::') and meth in OPS_METHODS:
                opn = OPS_METHODS[meth]
                tyc = ty.lstrip('&').strip()

                def opm(I, a, opn=opn, tyc=tyc):
                    x, y = deref(a[0]), deref(a[1])
                    if opn == 'Add' and isinstance(x, StringObj):   # String + &str
                        return StringObj(list(x.buf) + list(as_bytes(y)))
                    if opn in ('Add', 'Sub', 'Mul') and not is_sym(x) and not is_sym(y):
                        r = I.binop(opn + 'WithOverflow', x, y, tyc)
                        if r[1]:
                            raise RustPanic(f'attempt to {opn.lower()} with overflow')
                        return r[0]
                    return I.binop(opn, x, y, tyc)

                return opm
            if trait.startswith('std::ops::') and meth in ('add_assign', 'sub_assign', 'mul_assign', 'bitand_assign', 'bitor_assign'):
                opn = OPS_METHODS[meth[:-7]]
                tyc = ty.lstrip('&').strip()

                def opa(I, a, opn=opn, tyc=tyc):
                    slot = a[0].slot
                    x, y = slot.get(), deref(a[1])
                    if opn == 'Add' and isinstance(x, StringObj):   # String += &str
                        x.buf.extend(as_bytes(y))
                        return Agg()
                    if opn in ('Add', 'Sub', 'Mul') and not is_sym(x) and not is_sym(y):
                        r = I.binop(opn + 'WithOverflow', x, y, tyc)
                        if r[1]:
                            raise RustPanic(f'attempt to {opn.lower()} with overflow')
                        slot.set(r[0])
                    else:
                        slot.set(I.binop(opn, x, y, tyc))
                    return Agg()

                return opa
            if trait == 'std::iter::FromIterator' and meth == 'from_iter':
                return lambda I, a: collect(I, [into_iter(I, a)])
        return None


def deref1(v):
    return v.slot.get() if isinstance(v, Ref) else v


def b_not(r):
    return (not r) if isinstance(r, bool) else z3.Not(r)


def b_and(xs):
    cs = []
    for x in xs:
        if x is False:
            return False
        if x is True:
            continue
        cs.append(x)
    if not cs:
        return True
    return cs[0] if len(cs) == 1 else z3.And(*cs)


def b_or(xs):
    cs = []
    for x in xs:
        if x is True:
            return True
        if x is False:
            continue
        cs.append(x)
    if not cs:
        return False
    return cs[0] if len(cs) == 1 else z3.Or(*cs)


def b_eq(p, q):
    """equality of two scalars (int | z3) as bool | z3 Bool"""
    sp, sq = is_sym(p), is_sym(q)
    if not sp and not sq:
        return p == q
    if sp and sq:
        if p.eq(q):
            return True
        return p == q
    if sp:
        return p == (z3.BoolVal(q) if isinstance(q, bool) else z3.BitVecVal(q, p.size()))
    return q == (z3.BoolVal(p) if isinstance(p, bool) else z3.BitVecVal(p, q.size()))


def bytes_eq(xs, ys):
    if len(xs) != len(ys):
        return False
    return b_and(b_eq(p, q) for p, q in zip(xs, ys))


def as_bytes(v):
    v = deref(v)
    if isinstance(v, Enum) and v.ty == 'Cow':
        return as_bytes(v.fields[0])
    if isinstance(v, StrRef):
        return v.bytes()
    if isinstance(v, StringObj):
        return v.buf
    raise Unsupported('as_bytes of ' + type(v).__name__)


def as_str(v):
    v = deref(v)
    if isinstance(v, Enum) and v.ty == 'Cow':
        return as_str(v.fields[0])
    if isinstance(v, StrRef):
        return v
    if isinstance(v, StringObj):
        return StrRef(v.buf, 0, len(v.buf))
    raise Unsupported('as_str of ' + type(v).__name__)


def val_eq(I, x, y):
    x = deref(x)
    y = deref(y)
    if isinstance(x, (StrRef, StringObj)) and isinstance(y, (StrRef, StringObj)):
        return bytes_eq(as_bytes(x), as_bytes(y))
    if isinstance(x, Enum):
        if not isinstance(y, Enum) or x.variant != y.variant:
            return False
        return b_and(val_eq(I, p, q) for p, q in zip(x.fields, y.fields))
    if isinstance(x, Agg) and isinstance(y, Agg):
        if len(x) != len(y):
            return False
        return b_and(val_eq(I, p, q) for p, q in zip(x, y))
    if isinstance(x, (VecObj, SliceRef)) and isinstance(y, (VecObj, SliceRef)):
        lx, sx, ex = as_list(x)
        ly, sy, ey = as_list(y)
        if ex - sx != ey - sy:
            return False
        return b_and(val_eq(I, p, q) for p, q in zip(lx[sx:ex], ly[sy:ey]))
    if isinstance(x, SetObj) and isinstance(y, SetObj):
        raise Unsupported('HashSet equality')
    if isinstance(x, Opaque) and isinstance(y, Opaque) and x.kind == 'instant' and y.kind == 'instant':
        return b_and([b_eq(x.secs, y.secs), b_eq(getattr(x, 'frac', False), getattr(y, 'frac', False)), b_eq(getattr(x, 'nanos', 0), getattr(y, 'nanos', 0))])
    if isinstance(x, (bool, int)) or is_sym(x):
        return b_eq(x, y)
    raise Unsupported(f'val_eq {type(x).__name__} {type(y).__name__}')


def clone_val(v):
    if isinstance(v, VecObj):
        return VecObj([clone_val(x) for x in v.items])
    if isinstance(v, StringObj):
        return StringObj(list(v.buf), v.meta)
    if isinstance(v, Agg):
        a = Agg(clone_val(x) for x in v)
        a.ty = v.ty
        return a
    if isinstance(v, Enum):
        return Enum(v.ty, v.variant, [clone_val(x) for x in v.fields])
    if isinstance(v, SetObj):
        return SetObj([clone_val(x) for x in v.items])
    if isinstance(v, Iter):
        return v.clone()
    return v  # ints, terms, Ref (shared reference), RcObj (refcount bump), StrRef, Opaque


def default_val(I, ty):
    if ty in I.crate.structs and not I.crate.structs[ty]:
        return TAgg(ty, [])
    if ty in ('std::string::String',):
        return StringObj([])
    if ty.startswith('std::vec::Vec'):
        return VecObj()
    if ty in INT_W:
        return 0
    if ty == 'bool':
        return False
    if ty in ('&str', 'str'):
        return cstr('')
    if ty.startswith('std::option::Option'):
        return NONE()
    if ty.startswith(('std::collections::HashSet', 'std::collections::hash::set::HashSet')):
        return SetObj([])
    raise Unsupported('Default for ' + ty)


def generic_deref(I, a):
    v = deref(a[0])
    if isinstance(v, StringObj):
        return StrRef(v.buf, 0, len(v.buf))
    if isinstance(v, VecObj):
        return SliceRef(v.items, 0, None)
    if isinstance(v, RcObj):
        return Ref(Slot(v.cell, 0))
    if isinstance(v, (StrRef, SliceRef)):
        return v
    if isinstance(v, Enum) and v.ty == 'Cow':
        return generic_deref(I, [v.fields[0]])
    if isinstance(v, Agg) and len(v) == 2 and isinstance(v[0], Agg) and len(v[0]) == 1 and isinstance(v[0][0], Ref):
        return v[0][0]  # Box
    raise Unsupported('deref/as_ref of ' + type(v).__name__)


# ---------------- UTF-8 -----------------
def decode_at(I, s, off):
    """decode the char at absolute buffer offset `off`; returns (scalar value int|BitVec32, width).
    forks on the lead-byte class. The harness constrains buffers to valid UTF-8."""
    b0 = s.buf[off]
    if not is_sym(b0):
        if b0 < 0x80:
            return b0, 1
        w = 2 if b0 < 0xE0 else (3 if b0 < 0xF0 else 4)
        bs = s.buf[off:off + w]
        if all(not is_sym(x) for x in bs):
            return ord(bytes(bs).decode('utf-8')), w
    z0 = bv8(b0)
    if I.branch(z3.ULT(z0, 0x80)):
        w = 1
    elif I.branch(z3.ULT(z0, 0xE0)):
        w = 2
    elif I.branch(z3.ULT(z0, 0xF0)):
        w = 3
    else:
        w = 4
    if off + w > s.end:
        raise Unsupported('model: truncated utf8 (harness must constrain validity)')
    ze = lambda x: z3.ZeroExt(24, bv8(x))
    if w == 1:
        cp_ = ze(b0)
    elif w == 2:
        cp_ = ((ze(b0) & 0x1F) << 6) | (ze(s.buf[off + 1]) & 0x3F)
    elif w == 3:
        cp_ = ((ze(b0) & 0x0F) << 12) | ((ze(s.buf[off + 1]) & 0x3F) << 6) | (ze(s.buf[off + 2]) & 0x3F)
    else:
        cp_ = ((ze(b0) & 0x07) << 18) | ((ze(s.buf[off + 1]) & 0x3F) << 12) | ((ze(s.buf[off + 2]) & 0x3F) << 6) | (
                ze(s.buf[off + 3]) & 0x3F)
    return z3.simplify(cp_), w


def is_cont(I, b):
    if not is_sym(b):
        return 0x80 <= b < 0xC0
    return I.branch(z3.And(z3.UGE(b, 0x80), z3.ULT(b, 0xC0)))


def is_boundary(I, s, idx):
    n = len(s)
    if idx == 0 or idx == n:
        return True
    if idx > n:
        return False
    return not is_cont(I, s.buf[s.start + idx])


def char_start_before(I, s, off):
    """absolute offset of the start of the char that ends at absolute offset `off` (off > s.start)"""
    p = off - 1
    while p > s.start and is_cont(I, s.buf[p]):
        p -= 1
    return p


def encode_char(c):
    if is_sym(c):
        raise Unsupported('encode symbolic char')
    return list(chr(c).encode())


def utf8_valid(bs):
    """z3 constraint: byte list is well-formed UTF-8 (RFC 3629)"""
    n = len(bs)
    V = [None] * (n + 1)
    V[n] = z3.BoolVal(True)

    def rng(b, lo, hi):
        return z3.And(z3.UGE(b, lo), z3.ULE(b, hi))

    for i in range(n - 1, -1, -1):
        b = bs[i]
        alts = [z3.And(z3.ULT(b, 0x80), V[i + 1])]
        if i + 1 < n:
            alts.append(z3.And(rng(b, 0xC2, 0xDF), rng(bs[i + 1], 0x80, 0xBF), V[i + 2]))
        if i + 2 < n:
            c = rng(bs[i + 2], 0x80, 0xBF)
            alts.append(z3.And(b == 0xE0, rng(bs[i + 1], 0xA0, 0xBF), c, V[i + 3]))
            alts.append(z3.And(z3.Or(rng(b, 0xE1, 0xEC), rng(b, 0xEE, 0xEF)), rng(bs[i + 1], 0x80, 0xBF), c, V[i + 3]))
            alts.append(z3.And(b == 0xED, rng(bs[i + 1], 0x80, 0x9F), c, V[i + 3]))
        if i + 3 < n:
            c = z3.And(rng(bs[i + 2], 0x80, 0xBF), rng(bs[i + 3], 0x80, 0xBF))
            alts.append(z3.And(b == 0xF0, rng(bs[i + 1], 0x90, 0xBF), c, V[i + 4]))
            alts.append(z3.And(rng(b, 0xF1, 0xF3), rng(bs[i + 1], 0x80, 0xBF), c, V[i + 4]))
            alts.append(z3.And(b == 0xF4, rng(bs[i + 1], 0x80, 0x8F), c, V[i + 4]))
        V[i] = z3.Or(*alts)
    return V[0]


# ---------------- str -----------------
@model('core::str::<impl str>::char_indices')
def _(I, a):
    s = as_str(a[0])
    return Iter('char_indices', s=s, pos=s.start, end=s.end)


@model('core::str::<impl str>::chars')
def _(I, a):
    s = as_str(a[0])
    return Iter('chars', s=s, pos=s.start, end=s.end)


@model('core::str::<impl str>::bytes')
def _(I, a):
    s = as_str(a[0])
    return Iter('into_iter', lst=s.buf, pos=s.start, end=s.end)


@model('core::str::<impl str>::len', 'std::string::String::len')
def _(I, a):
    return len(as_str(a[0]))


@model('core::str::<impl str>::is_empty', 'std::string::String::is_empty')
def _(I, a):
    return len(as_str(a[0])) == 0


@model('core::str::<impl str>::as_bytes', 'std::string::String::as_bytes')
def _(I, a):
    s = as_str(a[0])
    return SliceRef(s.buf, s.start, s.end)


@model('core::str::<impl str>::is_char_boundary')
def _(I, a):
    return is_boundary(I, as_str(a[0]), a[1])


@model('std::string::String::as_str', 'std::string::String::as_mut_str', 'core::str::<impl str>::as_str')
def _(I, a):
    return as_str(a[0])


def range_bounds(r, n):
    """(lo, hi) of a Range / RangeFrom / RangeTo / RangeFull / RangeInclusive aggregate"""
    if isinstance(r, FnItem) and r.path.endswith('RangeFull'):
        return 0, n
    ty = getattr(r, 'ty', None) or ''
    if ty.endswith('RangeFrom'):
        return r[0], n
    if ty.endswith('RangeTo'):
        return 0, r[0]
    if ty.endswith('RangeFull'):
        return 0, n
    if ty.endswith('RangeToInclusive'):
        return 0, r[0] + 1
    if ty.endswith('RangeInclusive'):
        return r[0], r[1] + 1
    if len(r) == 2:
        return r[0], r[1]
    if len(r) == 1:
        return r[0], n
    raise Unsupported('range kind ' + ty)


def str_slice(I, s, lo, hi, what='byte index'):
    n = len(s)
    if is_sym(lo) or is_sym(hi):
        raise Unsupported('symbolic str index')
    if lo > hi:
        raise RustPanic(f'begin <= end ({lo} <= {hi}) when slicing')
    if hi > n:
        raise RustPanic(f'{what} {hi} is out of bounds (len {n})')
    if not is_boundary(I, s, lo) or not is_boundary(I, s, hi):
        raise RustPanic(f'{what} {lo}..{hi} is not a char boundary')
    return StrRef(s.buf, s.start + lo, s.start + hi)


@model('<str as std::ops::Index>::index', '<str as std::ops::IndexMut>::index_mut',
       '<std::string::String as std::ops::Index>::index')
def str_index(I, a):
    s = as_str(a[0])
    lo, hi = range_bounds(a[1], len(s))
    return str_slice(I, s, lo, hi)


@model('core::str::<impl str>::get')
def _(I, a):
    s = as_str(a[0])
    lo, hi = range_bounds(a[1], len(s))
    try:
        return some(str_slice(I, s, lo, hi))
    except RustPanic:
        return NONE()


def str_eq_z(x, y):
    return bytes_eq(as_bytes(x), as_bytes(y))


@model('core::str::<impl str>::starts_with')
def _(I, a):
    s = as_str(a[0])
    return match_at(I, s, s.start, pattern_of(a[1])) is not None


@model('core::str::<impl str>::ends_with')
def _(I, a):
    s = as_str(a[0])
    return match_at(I, s, s.end, pattern_of(a[1]), backwards=True) is not None


def pattern_of(p):
    """('alts', [byte lists]) for &str / String / char / [char; N] / &[char];  ('pred', closure) for FnMut(char) -> bool"""
    q = deref(p)
    if isinstance(q, (Closure, FnItem)):
        return ('pred', q)
    if is_sym(q):
        return ('symchar', q)
    if isinstance(q, (Agg, SliceRef, VecObj)) and not isinstance(q, (StrRef,)):
        lst, st, en = as_list(q)
        return ('alts', [encode_char(x) for x in lst[st:en]])
    return ('alts', [pattern_bytes(p)])


def match_at(I, s, off, pat, backwards=False):
    """length of a match of pat that starts at absolute offset off (or ends there if backwards), else None; forks"""
    if pat[0] == 'alts':
        for alt in pat[1]:
            n = len(alt)
            if n == 0:
                return 0
            if backwards:
                if off - n >= s.start and I.branch(bytes_eq(s.buf[off - n:off], alt)):
                    return n
            elif off + n <= s.end and I.branch(bytes_eq(s.buf[off:off + n], alt)):
                return n
        return None
    if backwards:
        if off <= s.start:
            return None
        st = char_start_before(I, s, off)
        c, w = decode_at(I, s, st)
    else:
        if off >= s.end:
            return None
        c, w = decode_at(I, s, off)
    if pat[0] == 'symchar':
        return w if I.branch(b_eq(c, pat[1])) else None
    return w if I.branch(I.call_closure(pat[1], [c])) else None


def pattern_bytes(p):
    p = deref(p)
    if isinstance(p, (StrRef, StringObj)):
        return list(as_bytes(p))
    if isinstance(p, int) and not isinstance(p, bool):
        return encode_char(p)
    raise Unsupported('pattern ' + type(p).__name__)


def find_from(I, s, pat, st):
    """first absolute offset >= st where pat occurs in s (forking), or None"""
    n = len(pat)
    i = st
    while i + n <= s.end:
        if n == 0 or I.branch(bytes_eq(s.buf[i:i + n], pat)):
            return i
        i += 1
    return None


@model('core::str::<impl str>::find')
def _(I, a):
    s = as_str(a[0])
    pat = pattern_bytes(a[1])
    r = find_from(I, s, pat, s.start)
    return NONE() if r is None else some(r - s.start)


@model('core::str::<impl str>::rfind')
def _(I, a):
    s = as_str(a[0])
    pat = pattern_bytes(a[1])
    n = len(pat)
    i = s.end - n
    while i >= s.start:
        if n == 0 or I.branch(bytes_eq(s.buf[i:i + n], pat)):
            return some(i - s.start)
        i -= 1
    return NONE()


@model('core::str::<impl str>::contains')
def _(I, a):
    s = as_str(a[0])
    pat = pattern_bytes(a[1])
    return find_from(I, s, pat, s.start) is not None


@model('core::str::<impl str>::trim_start_matches')
def _(I, a):
    s = as_str(a[0])
    pat = pattern_of(a[1])
    st = s.start
    while st < s.end:
        n = match_at(I, StrRef(s.buf, st, s.end), st, pat)
        if not n:
            break
        st += n
    return StrRef(s.buf, st, s.end)


@model('core::str::<impl str>::trim_end_matches')
def _(I, a):
    s = as_str(a[0])
    pat = pattern_of(a[1])
    en = s.end
    while en > s.start:
        n = match_at(I, StrRef(s.buf, s.start, en), en, pat, backwards=True)
        if not n:
            break
        en -= n
    return StrRef(s.buf, s.start, en)


@model('core::str::<impl str>::strip_prefix')
def _(I, a):
    s = as_str(a[0])
    n = match_at(I, s, s.start, pattern_of(a[1]))
    return NONE() if n is None else some(StrRef(s.buf, s.start + n, s.end))


@model('core::str::<impl str>::strip_suffix')
def _(I, a):
    s = as_str(a[0])
    n = match_at(I, s, s.end, pattern_of(a[1]), backwards=True)
    return NONE() if n is None else some(StrRef(s.buf, s.start, s.end - n))


def is_ws_char(I, c):
    """char::is_whitespace (White_Space property)"""
    if not is_sym(c):
        return chr(c).isspace() and c not in (0x1c, 0x1d, 0x1e, 0x1f) or c in (0x85,)
    ws = [0x9, 0xa, 0xb, 0xc, 0xd, 0x20, 0x85, 0xa0, 0x1680, 0x2028, 0x2029, 0x202f, 0x205f, 0x3000]
    cond = z3.Or(*[c == v for v in ws], z3.And(z3.UGE(c, 0x2000), z3.ULE(c, 0x200a)))
    return I.branch(cond)


def trim_generic(I, s, start, end):
    st, en = s.start, s.end
    if start:
        while st < en:
            c, w = decode_at(I, s, st)
            if not is_ws_char(I, c):
                break
            st += w
    if end:
        while en > st:
            p = char_start_before(I, StrRef(s.buf, st, en), en)
            c, w = decode_at(I, s, p)
            if not is_ws_char(I, c):
                break
            en = p
    return StrRef(s.buf, st, en)


@model('core::str::<impl str>::trim')
def _(I, a):
    return trim_generic(I, as_str(a[0]), True, True)


@model('core::str::<impl str>::trim_start')
def _(I, a):
    return trim_generic(I, as_str(a[0]), True, False)


@model('core::str::<impl str>::trim_end')
def _(I, a):
    return trim_generic(I, as_str(a[0]), False, True)


def to_string(I, a):
    v = deref(a[0])
    if isinstance(v, (StrRef, StringObj)):
        return StringObj(list(as_bytes(v)))
    if isinstance(v, int) and not isinstance(v, bool):
        if 'char' in I.cur_func and 'usize' not in I.cur_func:
            return StringObj(encode_char(v))
        return StringObj(list(str(v).encode()))
    raise Unsupported('to_string of ' + type(v).__name__)


EXACT['std::string::String::clone'] = lambda I, a: clone_val(deref(a[0]))


def to_owned(I, a):
    v = deref(a[0])
    if isinstance(v, (StrRef, StringObj)):
        return StringObj(list(as_bytes(v)))
    lst, st, en = as_list(v)
    return VecObj([clone_val(x) for x in lst[st:en]])


def conv_from(I, a):
    v = a[0]
    d = deref(v)
    if isinstance(d, StrRef) and 'String' in I.cur_func:
        return StringObj(list(d.bytes()))
    if re.search(r'String as std::convert::From<char>>::from$', I.cur_func) and isinstance(d, int):
        return StringObj(encode_char(d))
    m = re.search(r'<(\w+) as std::convert::From<(\w+)>>::from$', I.cur_func)
    if m and m.group(1) in INT_W and m.group(2) in INT_W and is_sym(d) and INT_W[m.group(1)] > d.size():
        return z3.SignExt(INT_W[m.group(1)] - d.size(), d) if m.group(2) in SIGNED else z3.ZeroExt(INT_W[m.group(1)] - d.size(), d)
    return v


@model('std::string::String::new')
def _(I, a):
    return StringObj([])


@model('std::string::String::with_capacity')
def _(I, a):
    return StringObj([])


@model('std::string::String::push')
def _(I, a):
    c = a[1]
    deref(a[0]).buf.extend(encode_char(c))
    return Agg()


@model('std::string::String::push_str')
def _(I, a):
    deref(a[0]).buf.extend(as_bytes(a[1]))
    return Agg()


@model('std::string::String::replace_range')
def _(I, a):
    so = deref(a[0])
    rep = as_bytes(a[2])
    n = len(so.buf)
    lo, hi = range_bounds(a[1], n)
    tmp = StrRef(so.buf, 0, n)
    if lo > hi:
        raise RustPanic(f'replace_range: slice index starts at {lo} but ends at {hi}')
    if hi > n:
        raise RustPanic(f'replace_range: range end index {hi} out of range for slice of length {n}')
    if not is_boundary(I, tmp, lo) or not is_boundary(I, tmp, hi):
        raise RustPanic('replace_range: assertion failed: self.is_char_boundary(n)')
    so.buf[lo:hi] = list(rep)
    return Agg()


@model('std::string::String::truncate')
def _(I, a):
    so = deref(a[0])
    n = a[1]
    if n <= len(so.buf):
        if not is_boundary(I, StrRef(so.buf, 0, len(so.buf)), n):
            raise RustPanic('String::truncate: not a char boundary')
        del so.buf[n:]
    return Agg()


@model('std::string::String::insert_str')
def _(I, a):
    so = deref(a[0])
    idx = a[1]
    if idx > len(so.buf) or not is_boundary(I, StrRef(so.buf, 0, len(so.buf)), idx):
        raise RustPanic('String::insert_str: not a char boundary')
    so.buf[idx:idx] = list(as_bytes(a[2]))
    return Agg()


@model('core::str::<impl str>::lines')
def _(I, a):
    s = as_str(a[0])
    return Iter('lines', s=s, pos=s.start, end=s.end)


def is_byte(I, b, v):
    if is_sym(b):
        return I.branch(b == v)
    return b == v


def lines_next(I, it):
    if it.pos >= it.end:
        return None
    i = it.pos
    while i < it.end and not is_byte(I, it.s.buf[i], 10):
        i += 1
    line_end = i
    nxt = i + 1 if i < it.end else i
    if i < it.end and line_end > it.pos and is_byte(I, it.s.buf[line_end - 1], 13):
        line_end -= 1
    r = StrRef(it.s.buf, it.pos, line_end)
    it.pos = nxt
    return r


@model('core::str::<impl str>::split')
def _(I, a):
    s = as_str(a[0])
    return Iter('split', s=s, pos=s.start, end=s.end, pat=pattern_bytes(a[1]), done=False)


def split_next(I, it):
    if it.done:
        return None
    r = find_from(I, StrRef(it.s.buf, it.pos, it.end), it.pat, it.pos) if it.pat else None
    if r is None:
        it.done = True
        return StrRef(it.s.buf, it.pos, it.end)
    out = StrRef(it.s.buf, it.pos, r)
    it.pos = r + len(it.pat)
    return out


@model('std::slice::<impl [T]>::join', 'std::slice::<impl [T]>::concat')
def _(I, a):
    lst, st, en = as_list(a[0])
    if en > st and isinstance(deref(lst[st]), (VecObj, SliceRef)) or (en == st and 'Vec<' in I.cur_func and 'str' not in I.cur_func and 'String' not in I.cur_func):
        out = []
        for k, x in enumerate(lst[st:en]):
            if k and len(a) > 1:
                l2, s2, e2 = as_list(a[1]) if isinstance(deref(a[1]), (VecObj, SliceRef, Agg)) else ([a[1]], 0, 1)
                out.extend(clone_val(y) for y in l2[s2:e2])
            l1, s1, e1 = as_list(x)
            out.extend(clone_val(y) for y in l1[s1:e1])
        return VecObj(out)
    sep = list(as_bytes(a[1])) if len(a) > 1 else []
    buf = []
    for k, x in enumerate(lst[st:en]):
        if k:
            buf.extend(sep)
        buf.extend(as_bytes(x))
    return StringObj(buf)


@model('std::str::<impl str>::repeat')
def _(I, a):
    n = a[1]
    if is_sym(n):
        raise Unsupported('repeat symbolic')
    if n > 1 << 20:
        raise RustPanic('capacity overflow')
    return StringObj(list(as_bytes(a[0])) * n)


@model('std::str::<impl str>::replace')
def _(I, a):
    s = as_str(a[0])
    pat = pattern_bytes(a[1])
    to = list(as_bytes(a[2]))
    out = []
    i = s.start
    n = len(pat)
    if n == 0:
        raise Unsupported('replace with empty pattern')
    while i < s.end:
        if i + n <= s.end and I.branch(bytes_eq(s.buf[i:i + n], pat)):
            out.extend(to)
            i += n
        else:
            out.append(s.buf[i])
            i += 1
    return StringObj(out)


@model('std::str::<impl str>::to_lowercase', 'std::str::<impl str>::to_uppercase',
       'std::str::<impl str>::to_ascii_lowercase', 'std::str::<impl str>::to_ascii_uppercase')
def _(I, a):
    bs = as_bytes(a[0])
    lower = 'lower' in I.cur_func
    if '_ascii_' in I.cur_func:
        # bytes A-Z / a-z only; every other byte (all of a multi-byte character) is kept
        lo, hi, d = (65, 90, 32) if lower else (97, 122, -32)
        return StringObj([(z3.If(z3.And(z3.UGE(b, lo), z3.ULE(b, hi)), b + d, b) if is_sym(b) else (b + d if lo <= b <= hi else b)) for b in bs])
    if any(is_sym(b) for b in bs):
        raise Unsupported('case mapping of symbolic text')
    s = bytes(bs).decode()
    if any(ord(c) > 127 for c in s):
        raise Unsupported('Unicode case mapping of non-ASCII text (the tables of Rust and Python may differ)')
    return mk_string(s.lower() if lower else s.upper())


@model('core::str::<impl str>::eq_ignore_ascii_case')
def _(I, a):
    x, y = as_bytes(a[0]), as_bytes(a[1])
    if len(x) != len(y):
        return False

    def low(b):
        if is_sym(b):
            return z3.If(z3.And(z3.UGE(b, 65), z3.ULE(b, 90)), b + 32, b)
        return b + 32 if 65 <= b <= 90 else b

    return b_and(b_eq(low(p), low(q)) for p, q in zip(x, y))


@model('core::str::<impl str>::parse')
def _(I, a):
    bs = as_bytes(a[0])
    mt = re.search(r'parse::<(\w+)>$', I.cur_func)
    if mt and mt.group(1) in INT_W and mt.group(1) != 'char':
        if any(is_sym(b) for b in bs):
            raise Unsupported('parse symbolic number')
        ty = mt.group(1)
        try:
            t = bytes(bs).decode()
        except UnicodeDecodeError:
            return err(Opaque('parse_error'))
        if not re.match(r'^[+-]?[0-9]+$' if ty in SIGNED else r'^\+?[0-9]+$', t):
            return err(Opaque('parse_error'))
        v = int(t)
        lo, hi = _rng(ty)
        return ok(v) if lo <= v <= hi else err(Opaque('parse_error'))
    if 'usize' in I.cur_func or 'u32' in I.cur_func or 'u64' in I.cur_func:
        if any(is_sym(b) for b in bs):
            raise Unsupported('parse symbolic number')
        try:
            t = bytes(bs).decode()
            if not re.match(r'^\+?\d+$', t):
                raise ValueError
            return ok(int(t))
        except ValueError:
            return err(Opaque('parse_error'))
    raise Unsupported('str::parse::<' + I.cur_func + '>')


# ---------------- char -----------------
@model('core::char::methods::<impl char>::len_utf8')
def _(I, a):
    c = a[0]
    if not is_sym(c):
        return len(chr(c).encode())
    if I.branch(z3.ULT(c, 0x80)):
        return 1
    if I.branch(z3.ULT(c, 0x800)):
        return 2
    if I.branch(z3.ULT(c, 0x10000)):
        return 3
    return 4


@model('core::char::methods::<impl char>::is_whitespace')
def _(I, a):
    return is_ws_char(I, deref(a[0]))


@model('core::char::methods::<impl char>::is_ascii_whitespace')
def _(I, a):
    c = deref(a[0])
    return b_or(b_eq(c, v) for v in (9, 10, 12, 13, 32))


@model('core::char::methods::<impl char>::is_ascii_digit')
def _(I, a):
    c = deref(a[0])
    if is_sym(c):
        return z3.And(z3.UGE(c, 48), z3.ULE(c, 57))
    return 48 <= c <= 57


@model('core::char::methods::<impl char>::is_ascii')
def _(I, a):
    c = deref(a[0])
    return z3.ULT(c, 128) if is_sym(c) else c < 128


def _byte_pred(name, sym, conc):
    def f(I, a):
        c = deref(a[0])
        return sym(c) if is_sym(c) else conc(c)
    for pre in ('core::num::<impl u8>::', 'core::char::methods::<impl char>::'):
        EXACT[pre + name] = f


_rng = lambda c, lo, hi: z3.And(z3.UGE(c, lo), z3.ULE(c, hi))
_byte_pred('is_ascii_digit', lambda c: _rng(c, 48, 57), lambda c: 48 <= c <= 57)
_byte_pred('is_ascii_uppercase', lambda c: _rng(c, 65, 90), lambda c: 65 <= c <= 90)
_byte_pred('is_ascii_lowercase', lambda c: _rng(c, 97, 122), lambda c: 97 <= c <= 122)
_byte_pred('is_ascii_alphabetic', lambda c: z3.Or(_rng(c, 65, 90), _rng(c, 97, 122)), lambda c: 65 <= c <= 90 or 97 <= c <= 122)
_byte_pred('is_ascii_alphanumeric', lambda c: z3.Or(_rng(c, 48, 57), _rng(c, 65, 90), _rng(c, 97, 122)),
           lambda c: 48 <= c <= 57 or 65 <= c <= 90 or 97 <= c <= 122)
_byte_pred('is_ascii_whitespace', lambda c: z3.Or(*[c == v for v in (9, 10, 12, 13, 32)]), lambda c: c in (9, 10, 12, 13, 32))
_byte_pred('is_ascii_punctuation', lambda c: z3.Or(_rng(c, 33, 47), _rng(c, 58, 64), _rng(c, 91, 96), _rng(c, 123, 126)),
           lambda c: 33 <= c <= 47 or 58 <= c <= 64 or 91 <= c <= 96 or 123 <= c <= 126)
_byte_pred('is_ascii', lambda c: z3.ULT(c, 128), lambda c: c < 128)


@model('core::char::methods::<impl char>::to_digit')
def _(I, a):
    c, radix = a[0], a[1]
    if radix != 10:
        raise Unsupported('to_digit radix')
    if is_sym(c):
        if I.branch(_rng(c, 48, 57)):
            return some(c - 48)
        return NONE()
    return some(c - 48) if 48 <= c <= 57 else NONE()


@model('core::num::<impl u8>::to_ascii_lowercase', 'core::char::methods::<impl char>::to_ascii_lowercase')
def _(I, a):
    c = deref(a[0])
    if is_sym(c):
        return z3.If(_rng(c, 65, 90), c + 32, c)
    return c + 32 if 65 <= c <= 90 else c


@model('core::num::<impl u8>::to_ascii_uppercase', 'core::char::methods::<impl char>::to_ascii_uppercase')
def _(I, a):
    c = deref(a[0])
    if is_sym(c):
        return z3.If(_rng(c, 97, 122), c - 32, c)
    return c - 32 if 97 <= c <= 122 else c


# ---------------- iterators -----------------
def as_list(v):
    v = deref(v)
    if isinstance(v, VecObj):
        return v.items, 0, len(v.items)
    if isinstance(v, SliceRef):
        return v.lst, v.start, (len(v.lst) if v.end is None else v.end)
    if isinstance(v, Agg):
        return v, 0, len(v)
    raise Unsupported('as_list ' + type(v).__name__)


def into_iter(I, a):
    v = a[0]
    if isinstance(v, Iter):
        return v
    if isinstance(v, VecObj):
        return Iter('into_iter', lst=v.items, pos=0, end=len(v.items))
    if isinstance(v, Agg):
        ty = v.ty or ''
        if ty.endswith('RangeInclusive'):
            return Iter('range', pos=v[0], end=v[1] + 1)
        if ty.endswith('RangeFrom'):
            return Iter('range', pos=v[0], end=1 << 64)
        if ty != '[array]' and (ty.endswith('Range') or (len(v) == 2 and all(isinstance(x, int) for x in v))):
            return Iter('range', pos=v[0], end=v[1])
        return Iter('into_iter', lst=list(v), pos=0, end=len(v))
    if isinstance(v, Ref):
        d = deref(v)
        if isinstance(d, (VecObj, SliceRef)):
            lst, st, en = as_list(d)
            return Iter('slice_iter', lst=lst, pos=st, end=en)
        if isinstance(d, Iter):
            return d
        if isinstance(d, SetObj):
            set_dedup(I, d)
            return Iter('slice_iter', lst=d.items, pos=0, end=len(d.items))
        if isinstance(d, Agg):
            ty = d.ty or ''
            if ty != '[array]' and ('Range' in ty or (len(d) == 2 and all(isinstance(x, int) for x in d))):
                # `for x in &mut range` / by_ref / `opt.as_mut().next()`: iterate the range *in place* - every step is written back
                # into the range value, so that the next call through another reference continues where this one stopped
                it = into_iter(I, [d])
                it.agg = d
                it.incl = ty.endswith('RangeInclusive')
                return it
            return Iter('slice_iter', lst=d, pos=0, end=len(d))
        if isinstance(d, Enum) and d.ty == 'Option':
            return Iter('slice_iter', lst=d.fields, pos=0, end=len(d.fields))
    if isinstance(v, SliceRef):
        lst, st, en = as_list(v)
        return Iter('slice_iter', lst=lst, pos=st, end=en)
    if isinstance(v, Enum) and v.ty == 'Option':
        return Iter('into_iter', lst=list(v.fields), pos=0, end=len(v.fields))
    if isinstance(v, SetObj):
        set_dedup(I, v)
        return Iter('into_iter', lst=v.items, pos=0, end=len(v.items))
    raise Unsupported('into_iter of ' + type(v).__name__)


def as_iter(I, v):
    d = deref(v)
    if isinstance(d, Iter):
        return d
    return into_iter(I, [v])


def it_next(I, it):
    k = it.kind
    if k == 'chars' or k == 'char_indices':
        if it.pos >= it.end:
            return None
        c, w = decode_at(I, StrRef(it.s.buf, it.s.start, it.end), it.pos)
        off = it.pos - it.s.start
        it.pos += w
        return c if k == 'chars' else Agg([off, c])
    if k == 'into_iter':
        if it.pos >= it.end:
            return None
        v = it.lst[it.pos]
        it.pos += 1
        return v
    if k == 'slice_iter':
        if it.pos >= it.end:
            return None
        it.pos += 1
        return Ref(Slot(it.lst, it.pos - 1))
    if k == 'range':
        if it.pos >= it.end:
            return None
        it.pos += 1
        if getattr(it, 'agg', None) is not None:
            it.agg[0] = it.pos
        return it.pos - 1
    if k == 'rev':
        return it_next_back(I, it.inner)
    if k == 'map':
        v = it_next(I, it.inner)
        return None if v is None else I.call_closure(it.f, [v])
    if k == 'filter':
        while True:
            v = it_next(I, it.inner)
            if v is None:
                return None
            if I.branch(I.call_closure(it.f, [Ref(Slot([v], 0))])):
                return v
    if k == 'filter_map':
        while True:
            v = it_next(I, it.inner)
            if v is None:
                return None
            r = I.call_closure(it.f, [v])
            if r.variant == 'Some':
                return r.fields[0]
    if k == 'enumerate':
        v = it_next(I, it.inner)
        if v is None:
            return None
        it.n += 1
        return Agg([it.n - 1, v])
    if k == 'zip':
        x = it_next(I, it.a)
        if x is None:
            return None
        y = it_next(I, it.b)
        if y is None:
            return None
        return Agg([x, y])
    if k == 'chain':
        if it.a is not None:
            v = it_next(I, it.a)
            if v is not None:
                return v
            it.a = None
        return it_next(I, it.b)
    if k == 'skip':
        while it.n > 0:
            it.n -= 1
            if it_next(I, it.inner) is None:
                return None
        return it_next(I, it.inner)
    if k == 'take':
        if it.n <= 0:
            return None
        it.n -= 1
        return it_next(I, it.inner)
    if k == 'take_while':
        if it.done:
            return None
        v = it_next(I, it.inner)
        if v is None:
            return None
        if I.branch(I.call_closure(it.f, [Ref(Slot([v], 0))])):
            return v
        it.done = True
        return None
    if k == 'skip_while':
        while True:
            v = it_next(I, it.inner)
            if v is None:
                return None
            if it.done or not I.branch(I.call_closure(it.f, [Ref(Slot([v], 0))])):
                it.done = True
                return v
    if k == 'cloned':
        v = it_next(I, it.inner)
        return None if v is None else clone_val(deref(v))
    if k == 'flat_map':
        while True:
            if it.cur is not None:
                v = it_next(I, it.cur)
                if v is not None:
                    return v
                it.cur = None
            x = it_next(I, it.inner)
            if x is None:
                return None
            it.cur = as_iter(I, I.call_closure(it.f, [x]) if it.f is not None else x)
    if k == 'scan':
        if it.done:
            return None
        v = it_next(I, it.inner)
        if v is None:
            return None
        r = I.call_closure(it.f, [Ref(Slot(it.state, 0)), v])
        if r.variant == 'None':
            it.done = True
            return None
        return r.fields[0]
    if k == 'from_fn':
        if it.done:
            return None
        r = I.call_closure(it.f, [])
        if r.variant == 'None':
            return None
        return r.fields[0]
    if k == 'repeat':
        return clone_val(it.v)
    if k == 'drain':
        if it.pos >= it.end:
            return None
        it.pos += 1
        return it.items[it.pos - 1]
    if k == 'matches':
        r = find_from(I, StrRef(it.s.buf, it.pos, it.end), it.pat, it.pos)
        if r is None:
            it.pos = it.end
            return None
        it.pos = r + max(1, len(it.pat))
        m_ = StrRef(it.s.buf, r, r + len(it.pat))
        return Agg([r - it.s.start, m_]) if it.indices else m_
    if k == 'inspect':
        v = it_next(I, it.inner)
        if v is not None:
            I.call_closure(it.f, [Ref(Slot([v], 0))])
        return v
    if k == 'map_while':
        if it.done:
            return None
        v = it_next(I, it.inner)
        if v is None:
            return None
        r = I.call_closure(it.f, [v])
        if r.variant == 'None':
            it.done = True
            return None
        return r.fields[0]
    if k == 'peekable':
        if it.peeked is not None:
            v = it.peeked[0]
            it.peeked = None
            return v
        return it_next(I, it.inner)
    if k == 'lines':
        return lines_next(I, it)
    if k == 'split':
        return split_next(I, it)
    if k == 'step_by':
        v = it_next(I, it.inner)
        if v is None:
            return None
        for _ in range(it.n - 1):
            it_next(I, it.inner)
        return v
    raise Unsupported('next on ' + k)


def it_next_back(I, it):
    k = it.kind
    if k in ('into_iter', 'slice_iter'):
        if it.pos >= it.end:
            return None
        it.end -= 1
        return it.lst[it.end] if k == 'into_iter' else Ref(Slot(it.lst, it.end))
    if k == 'range':
        if it.pos >= it.end:
            return None
        it.end -= 1
        if getattr(it, 'agg', None) is not None:
            if len(it.agg) > 1:
                it.agg[1] = it.end - 1 if getattr(it, 'incl', False) else it.end
        return it.end
    if k in ('chars', 'char_indices'):
        if it.pos >= it.end:
            return None
        p = char_start_before(I, StrRef(it.s.buf, it.pos, it.end), it.end)
        c, w = decode_at(I, StrRef(it.s.buf, it.s.start, it.end), p)
        it.end = p
        return c if k == 'chars' else Agg([p - it.s.start, c])
    if k == 'map':
        v = it_next_back(I, it.inner)
        return None if v is None else I.call_closure(it.f, [v])
    if k == 'rev':
        return it_next(I, it.inner)
    if k == 'enumerate':
        n = it_len(I, it.inner)
        v = it_next_back(I, it.inner)
        return None if v is None else Agg([it.n + n - 1, v])
    if k == 'cloned':
        v = it_next_back(I, it.inner)
        return None if v is None else clone_val(deref(v))
    if k == 'filter':
        while True:
            v = it_next_back(I, it.inner)
            if v is None:
                return None
            if I.branch(I.call_closure(it.f, [Ref(Slot([v], 0))])):
                return v
    if k == 'zip':
        la, lb = it_len(I, it.a), it_len(I, it.b)
        while la > lb:
            it_next_back(I, it.a)
            la -= 1
        while lb > la:
            it_next_back(I, it.b)
            lb -= 1
        x = it_next_back(I, it.a)
        if x is None:
            return None
        return Agg([x, it_next_back(I, it.b)])
    raise Unsupported('next_back on ' + k)


def it_len(I, it):
    c = it.clone()
    n = 0
    while it_next(I, c) is not None:
        n += 1
    return n


def opt(v):
    return NONE() if v is None else some(v)


@itermethod('next')
def _(I, a):
    return opt(it_next(I, as_iter(I, a[0])))


@itermethod('next_back')
def _(I, a):
    return opt(it_next_back(I, as_iter(I, a[0])))


@itermethod('fold')
def _(I, a):
    it, acc, clo = as_iter(I, a[0]), a[1], a[2]
    while True:
        v = it_next(I, it)
        if v is None:
            return acc
        acc = I.call_closure(clo, [acc, v])


@itermethod('rfold')
def _(I, a):
    it, acc, clo = as_iter(I, a[0]), a[1], a[2]
    while True:
        v = it_next_back(I, it)
        if v is None:
            return acc
        acc = I.call_closure(clo, [acc, v])


@itermethod('for_each')
def _(I, a):
    it, clo = as_iter(I, a[0]), a[1]
    while True:
        v = it_next(I, it)
        if v is None:
            return Agg()
        I.call_closure(clo, [v])


@itermethod('last')
def _(I, a):
    it = as_iter(I, a[0])
    last = None
    while True:
        v = it_next(I, it)
        if v is None:
            break
        last = v
    return opt(last)


@itermethod('count')
def _(I, a):
    it = as_iter(I, a[0])
    n = 0
    while it_next(I, it) is not None:
        n += 1
    return n


@itermethod('len')
def _(I, a):
    return it_len(I, as_iter(I, a[0]))


@itermethod('nth')
def _(I, a):
    it = as_iter(I, a[0])
    for _ in range(a[1]):
        if it_next(I, it) is None:
            return NONE()
    return opt(it_next(I, it))


@itermethod('any')
def _(I, a):
    it, clo = as_iter(I, a[0]), a[1]
    while True:
        v = it_next(I, it)
        if v is None:
            return False
        if I.branch(I.call_closure(clo, [v])):
            return True


@itermethod('all')
def _(I, a):
    it, clo = as_iter(I, a[0]), a[1]
    while True:
        v = it_next(I, it)
        if v is None:
            return True
        if not I.branch(I.call_closure(clo, [v])):
            return False


@itermethod('find')
def _(I, a):
    it, clo = as_iter(I, a[0]), a[1]
    while True:
        v = it_next(I, it)
        if v is None:
            return NONE()
        if I.branch(I.call_closure(clo, [Ref(Slot([v], 0))])):
            return some(v)


@itermethod('rfind')
def _(I, a):
    it, clo = as_iter(I, a[0]), a[1]
    while True:
        v = it_next_back(I, it)
        if v is None:
            return NONE()
        if I.branch(I.call_closure(clo, [Ref(Slot([v], 0))])):
            return some(v)


@itermethod('find_map')
def _(I, a):
    it, clo = as_iter(I, a[0]), a[1]
    while True:
        v = it_next(I, it)
        if v is None:
            return NONE()
        r = I.call_closure(clo, [v])
        if r.variant == 'Some':
            return r


@itermethod('position')
def _(I, a):
    it, clo = as_iter(I, a[0]), a[1]
    i = 0
    while True:
        v = it_next(I, it)
        if v is None:
            return NONE()
        if I.branch(I.call_closure(clo, [v])):
            return some(i)
        i += 1


@itermethod('rposition')
def _(I, a):
    it, clo = as_iter(I, a[0]), a[1]
    i = it_len(I, it)
    while True:
        v = it_next_back(I, it)
        if v is None:
            return NONE()
        i -= 1
        if I.branch(I.call_closure(clo, [v])):
            return some(i)


def _acc_ty(I):
    m = re.search(r'::(?:sum|product)::<(\w+)>$', I.cur_func)
    return m.group(1) if m and m.group(1) in INT_W else 'usize'


def _acc_check(I, ty, v, what):
    if not is_sym(v):
        lo, hi = _rng(ty)
        if not lo <= v <= hi:
            raise RustPanic(f'attempt to {what} with overflow')
    return v


@itermethod('sum')
def _(I, a):
    it = as_iter(I, a[0])
    ty = _acc_ty(I)
    s = 0
    while True:
        v = it_next(I, it)
        if v is None:
            return s
        s = _acc_check(I, ty, s + deref(v), 'add')


def _extreme(I, a, pick_max):
    it = as_iter(I, a[0])
    best = None
    while True:
        v = it_next(I, it)
        if v is None:
            return opt(best)
        if best is None:
            best = v
        else:
            x, y = deref(best), deref(v)
            if is_sym(x) or is_sym(y):
                raise Unsupported('min/max over symbolic')
            if (y >= x) if pick_max else (y < x):
                best = v


ITER_METHODS['max'] = lambda I, a: _extreme(I, a, True)
ITER_METHODS['min'] = lambda I, a: _extreme(I, a, False)


@itermethod('map')
def _(I, a):
    return Iter('map', inner=as_iter(I, a[0]), f=a[1])


@itermethod('filter')
def _(I, a):
    return Iter('filter', inner=as_iter(I, a[0]), f=a[1])


@itermethod('filter_map')
def _(I, a):
    return Iter('filter_map', inner=as_iter(I, a[0]), f=a[1])


@itermethod('enumerate')
def _(I, a):
    return Iter('enumerate', inner=as_iter(I, a[0]), n=0)


@itermethod('rev')
def _(I, a):
    return Iter('rev', inner=as_iter(I, a[0]))


@itermethod('zip')
def _(I, a):
    return Iter('zip', a=as_iter(I, a[0]), b=as_iter(I, a[1]))


@itermethod('chain')
def _(I, a):
    return Iter('chain', a=as_iter(I, a[0]), b=as_iter(I, a[1]))


@itermethod('skip')
def _(I, a):
    return Iter('skip', inner=as_iter(I, a[0]), n=a[1])


@itermethod('take')
def _(I, a):
    return Iter('take', inner=as_iter(I, a[0]), n=a[1])


@itermethod('step_by')
def _(I, a):
    return Iter('step_by', inner=as_iter(I, a[0]), n=a[1])


@itermethod('take_while')
def _(I, a):
    return Iter('take_while', inner=as_iter(I, a[0]), f=a[1], done=False)


@itermethod('skip_while')
def _(I, a):
    return Iter('skip_while', inner=as_iter(I, a[0]), f=a[1], done=False)


@itermethod('flat_map')
def _(I, a):
    return Iter('flat_map', inner=as_iter(I, a[0]), f=a[1], cur=None)


@itermethod('flatten')
def _(I, a):
    return Iter('flat_map', inner=as_iter(I, a[0]), f=None, cur=None)


@itermethod('inspect')
def _(I, a):
    return Iter('inspect', inner=as_iter(I, a[0]), f=a[1])


@itermethod('map_while')
def _(I, a):
    return Iter('map_while', inner=as_iter(I, a[0]), f=a[1], done=False)


@itermethod('scan')
def _(I, a):
    return Iter('scan', inner=as_iter(I, a[0]), state=[a[1]], f=a[2], done=False)


@itermethod('try_fold')
def _(I, a):
    it, acc, clo = as_iter(I, a[0]), a[1], a[2]
    from mirparse import match_close, split_top
    kind = None
    k0 = I.cur_func.find('try_fold::<')
    if k0 >= 0:
        j = match_close(I.cur_func, k0 + len('try_fold::'))
        parts_ = split_top(I.cur_func[k0 + len('try_fold::<'):j])
        for nm in ('Option', 'Result', 'ControlFlow'):
            if parts_ and parts_[-1].split('<')[0].endswith('::' + nm):
                kind = nm
    while True:
        v = it_next(I, it)
        if v is None:
            if kind == 'Option':
                return some(acc)
            if kind == 'Result':
                return ok(acc)
            if kind == 'ControlFlow':
                return Enum('ControlFlow', 'Continue', [acc])
            raise Unsupported('try_fold result type')
        r = I.call_closure(clo, [acc, v])
        if r.variant in ('None', 'Err', 'Break'):
            return r
        acc = r.fields[0]


@itermethod('cloned', 'copied')
def _(I, a):
    return Iter('cloned', inner=as_iter(I, a[0]))


@itermethod('peekable')
def _(I, a):
    return Iter('peekable', inner=as_iter(I, a[0]), peeked=None)


@model('std::iter::Peekable::next_if')
def _(I, a):
    it = deref(a[0])
    if it.peeked is None:
        it.peeked = [it_next(I, it.inner)]
    v = it.peeked[0]
    if v is None:
        return NONE()
    if I.branch(I.call_closure(a[1], [Ref(Slot(it.peeked, 0))])):
        it.peeked = None
        return some(v)
    return NONE()


@model('std::iter::from_fn')
def _(I, a):
    return Iter('from_fn', f=a[0], done=False)


@model('std::iter::repeat')
def _(I, a):
    return Iter('repeat', v=a[0])


@model('core::str::<impl str>::matches')
def _(I, a):
    s = as_str(a[0])
    return Iter('matches', s=s, pos=s.start, end=s.end, pat=pattern_bytes(a[1]), indices=False)


@model('core::str::<impl str>::match_indices')
def _(I, a):
    s = as_str(a[0])
    return Iter('matches', s=s, pos=s.start, end=s.end, pat=pattern_bytes(a[1]), indices=True)


@model('std::str::Chars::as_str')
def _(I, a):
    it = deref(a[0])
    return StrRef(it.s.buf, it.pos, it.end)


@model('std::str::CharIndices::as_str')
def _(I, a):
    it = deref(a[0])
    return StrRef(it.s.buf, it.pos, it.end)


@model('std::vec::Vec::dedup_by')
def _(I, a):
    v = deref(a[0])
    items = v.items
    if not items:
        return Agg()
    out = [items[0]]
    for x in items[1:]:
        cell_new, cell_prev = [x], [out[-1]]
        same_ = I.branch(I.call_closure(a[1], [Ref(Slot(cell_new, 0)), Ref(Slot(out, len(out) - 1))]))
        if not same_:
            out.append(cell_new[0])
    v.items[:] = out
    return Agg()


@model('std::vec::Vec::drain')
def _(I, a):
    v = deref(a[0])
    lo, hi = range_bounds(a[1], len(v.items))
    if lo > hi or hi > len(v.items):
        raise RustPanic('drain range out of bounds')
    taken = v.items[lo:hi]
    del v.items[lo:hi]
    return Iter('drain', items=taken, pos=0, end=len(taken))


@model('core::slice::<impl [T]>::split_first')
def _(I, a):
    lst, st, en = as_list(a[0])
    if en == st:
        return NONE()
    return some(Agg([Ref(Slot(lst, st)), SliceRef(lst, st + 1, en)]))


@model('core::slice::<impl [T]>::split_last')
def _(I, a):
    lst, st, en = as_list(a[0])
    if en == st:
        return NONE()
    return some(Agg([Ref(Slot(lst, en - 1)), SliceRef(lst, st, en - 1)]))


@model('core::slice::<impl [T]>::split_at', 'core::str::<impl str>::split_at')
def _(I, a):
    d = deref(a[0])
    if isinstance(d, (StrRef, StringObj)):
        s = as_str(d)
        return Agg([str_slice(I, s, 0, a[1]), str_slice(I, s, a[1], len(s))])
    lst, st, en = as_list(d)
    if a[1] > en - st:
        raise RustPanic('mid > len')
    return Agg([SliceRef(lst, st, st + a[1]), SliceRef(lst, st + a[1], en)])


@model('core::bool::<impl bool>::then_some')
def _(I, a):
    return some(a[1]) if I.branch(a[0]) else NONE()


@model('core::bool::<impl bool>::then')
def _(I, a):
    return some(I.call_closure(a[1], [])) if I.branch(a[0]) else NONE()


@model('std::result::Result::is_ok_and')
def _(I, a):
    r = a[0]
    return False if r.variant == 'Err' else I.call_closure(a[1], [r.fields[0]])


@model('std::result::Result::is_err_and')
def _(I, a):
    r = a[0]
    return False if r.variant == 'Ok' else I.call_closure(a[1], [r.fields[0]])


@model('std::result::Result::or')
def _(I, a):
    return a[0] if a[0].variant == 'Ok' else a[1]


@model('std::result::Result::unwrap_or_default', 'std::result::Result::unwrap_or_else')
def _(I, a):
    r = a[0]
    if r.variant == 'Ok':
        return r.fields[0]
    if 'unwrap_or_else' in I.cur_func:
        return I.call_closure(a[1], [r.fields[0]])
    m = re.search(r'Result::<(.*?),', I.cur_func)
    return default_val(I, strip_generics(m.group(1)) if m else 'usize')


@model('std::iter::Peekable::peek')
def _(I, a):
    it = deref(a[0])
    if it.peeked is None:
        it.peeked = [it_next(I, it.inner)]
    v = it.peeked[0]
    if v is None:
        return NONE()
    return some(Ref(Slot(it.peeked, 0)))


@itermethod('by_ref')
def _(I, a):
    return a[0]


def collect(I, a):
    fn = I.cur_func
    it = as_iter(I, a[0])
    out = []
    while True:
        v = it_next(I, it)
        if v is None:
            break
        out.append(v)
    m = re.search(r'(?:collect|from_iter)::<(.*)>$', fn) or re.search(r'^<([\w:]+)', fn)
    target = m.group(1) if m else ''
    if target.startswith('std::string::String'):
        buf = []
        for x in out:
            x = deref(x)
            if isinstance(x, (StringObj, StrRef)):
                buf.extend(as_bytes(x))
            else:
                buf.extend(encode_char(x))
        return StringObj(buf)
    if target.startswith('std::collections::BTreeSet'):
        so = SetObj(out)
        so.raw = True
        so.sorted = True
        return so
    if target.startswith('std::collections::HashSet'):
        so = SetObj(out)
        so.raw = True   # may still hold duplicates: membership does not care, len / iteration remove them first (set_dedup)
        return so
    if target.startswith('std::vec::Vec') or target.startswith('std::boxed::Box<['):
        return VecObj(out)
    raise Unsupported('collect into ' + target)


ITER_METHODS['collect'] = collect


# ---------------- Vec / slice -----------------
@model('std::vec::Vec::new')
def _(I, a):
    return VecObj()


@model('std::vec::Vec::with_capacity')
def _(I, a):
    return VecObj()


@model('std::vec::Vec::push')
def _(I, a):
    deref(a[0]).items.append(a[1])
    return Agg()


@model('std::vec::Vec::len', 'core::slice::<impl [T]>::len')
def _(I, a):
    lst, st, en = as_list(a[0])
    return en - st


@model('std::vec::Vec::is_empty', 'core::slice::<impl [T]>::is_empty')
def _(I, a):
    lst, st, en = as_list(a[0])
    return en == st


@model('std::vec::Vec::pop')
def _(I, a):
    v = deref(a[0])
    return some(v.items.pop()) if v.items else NONE()


@model('std::vec::Vec::insert')
def _(I, a):
    v = deref(a[0])
    if a[1] > len(v.items):
        raise RustPanic(f'insertion index (is {a[1]}) should be <= len (is {len(v.items)})')
    v.items.insert(a[1], a[2])
    return Agg()


@model('std::vec::Vec::remove')
def _(I, a):
    v = deref(a[0])
    if a[1] >= len(v.items):
        raise RustPanic(f'removal index (is {a[1]}) should be < len (is {len(v.items)})')
    return v.items.pop(a[1])


@model('std::vec::Vec::truncate')
def _(I, a):
    v = deref(a[0])
    del v.items[a[1]:]
    return Agg()


@model('std::vec::Vec::clear')
def _(I, a):
    v = deref(a[0])
    del v.items[:]
    return Agg()


@model('std::vec::Vec::append')
def _(I, a):
    v = deref(a[0])
    o = deref(a[1])
    v.items.extend(o.items)
    del o.items[:]
    return Agg()


@model('std::vec::Vec::extend_from_slice')
def _(I, a):
    v = deref(a[0])
    lst, st, en = as_list(a[1])
    v.items.extend(clone_val(x) for x in lst[st:en])
    return Agg()


@model('std::vec::Vec::as_slice', 'std::vec::Vec::as_mut_slice')
def _(I, a):
    return SliceRef(deref(a[0]).items, 0, None)


@model('std::vec::Vec::dedup')
def _(I, a):
    raise Unsupported('Vec::dedup')


def vec_extend(I, a):
    v = deref(a[0])
    if isinstance(v, MapObj):
        it = as_iter(I, a[1])
        while True:
            x = it_next(I, it)
            if x is None:
                return Agg()
            x = deref(x)
            map_insert(I, v, x[0], x[1])
    if isinstance(v, SetObj):
        it = as_iter(I, a[1])
        while True:
            x = it_next(I, it)
            if x is None:
                return Agg()
            if not any(I.branch(val_eq(I, kk, x)) for kk in v.items):
                v.items.append(x)
    if isinstance(v, StringObj):
        it = as_iter(I, a[1])
        while True:
            x = it_next(I, it)
            if x is None:
                return Agg()
            x = deref(x)
            v.buf.extend(as_bytes(x) if isinstance(x, (StrRef, StringObj)) else encode_char(x))
    it = as_iter(I, a[1])
    while True:
        x = it_next(I, it)
        if x is None:
            return Agg()
        # Extend<&T> for Vec<T: Copy> copies out of the slice; everything else moves the yielded value in
        v.items.append(clone_val(deref(x)) if it.kind == 'slice_iter' else x)


def generic_index(I, a):
    c = deref(a[0])
    idx = a[1]
    if isinstance(c, (StrRef, StringObj)):
        return str_index(I, [c, idx])
    if isinstance(c, MapObj):
        for ent in c.items:
            if I.branch(val_eq(I, ent[0], idx)):
                return Ref(Slot(ent, 1))
        raise RustPanic('HashMap index: key not found')
    lst, st, en = as_list(c)
    n = en - st
    if isinstance(idx, (Agg, FnItem)):
        lo, hi = range_bounds(idx, n)
        if lo > hi:
            raise RustPanic(f'slice index starts at {lo} but ends at {hi}')
        if hi > n:
            raise RustPanic(f'range end index {hi} out of range for slice of length {n}')
        return SliceRef(lst, st + lo, st + hi)
    if is_sym(idx):
        raise Unsupported('symbolic index')
    if idx >= n:
        raise RustPanic(f'index out of bounds: the len is {n} but the index is {idx}')
    return Ref(Slot(lst, st + idx))


@model('core::slice::<impl [T]>::get', 'core::slice::<impl [T]>::get_mut')
def _(I, a):
    lst, st, en = as_list(a[0])
    i = a[1]
    if isinstance(i, Agg):
        lo, hi = range_bounds(i, en - st)
        if lo > hi or hi > en - st:
            return NONE()
        return some(SliceRef(lst, st + lo, st + hi))
    if is_sym(i):
        raise Unsupported('symbolic index')
    return some(Ref(Slot(lst, st + i))) if i < en - st else NONE()


@model('core::slice::<impl [T]>::first', 'core::slice::<impl [T]>::first_mut')
def _(I, a):
    lst, st, en = as_list(a[0])
    return NONE() if en == st else some(Ref(Slot(lst, st)))


@model('core::slice::<impl [T]>::last', 'core::slice::<impl [T]>::last_mut')
def _(I, a):
    lst, st, en = as_list(a[0])
    return NONE() if en == st else some(Ref(Slot(lst, en - 1)))


@model('core::slice::<impl [T]>::iter', 'core::slice::<impl [T]>::iter_mut')
def _(I, a):
    lst, st, en = as_list(a[0])
    return Iter('slice_iter', lst=lst, pos=st, end=en)


@model('std::slice::<impl [T]>::to_vec')
def _(I, a):
    lst, st, en = as_list(a[0])
    return VecObj([clone_val(x) for x in lst[st:en]])


@model('core::slice::<impl [T]>::contains')
def _(I, a):
    lst, st, en = as_list(a[0])
    return b_or(val_eq(I, x, a[1]) for x in lst[st:en])


@model('core::slice::<impl [T]>::reverse')
def _(I, a):
    lst, st, en = as_list(a[0])
    lst[st:en] = lst[st:en][::-1]
    return Agg()


class _Rev:
    """std::cmp::Reverse as a sort key"""
    __slots__ = ('k',)

    def __init__(s, k):
        s.k = k

    def __lt__(s, o):
        return o.k < s.k

    def __eq__(s, o):
        return s.k == o.k


def _sort_key_concrete(x, I=None):
    x = deref(x)
    if isinstance(x, Agg):
        if 'Reverse' in str(getattr(x, 'ty', '')):
            return _Rev(_sort_key_concrete(x[0], I))
        return tuple(_sort_key_concrete(y, I) for y in x)
    if isinstance(x, Enum):
        if x.variant in ('None', 'Some'):
            return (0,) if x.variant == 'None' else (1,) + tuple(_sort_key_concrete(y, I) for y in x.fields)
        if x.variant in ('Ok', 'Err'):
            return (0 if x.variant == 'Ok' else 1,) + tuple(_sort_key_concrete(y, I) for y in x.fields)
        if x.variant in ('Less', 'Equal', 'Greater'):
            return ('Less', 'Equal', 'Greater').index(x.variant)
        order = I.crate.enums.get(x.ty) if I is not None else None
        if order and x.variant in order:
            return (order.index(x.variant),) + tuple(_sort_key_concrete(y, I) for y in x.fields)
        raise Unsupported('sort key enum ' + str(x.ty))
    if isinstance(x, bool) or isinstance(x, int):
        return x
    if isinstance(x, (StrRef, StringObj)):
        bs = as_bytes(x)
        if any(is_sym(b) for b in bs):
            raise Unsupported('sort key: symbolic text')
        return tuple(bs)   # str orders by bytes
    raise Unsupported('sort key ' + type(x).__name__)


@model('std::slice::<impl [T]>::sort', 'core::slice::<impl [T]>::sort_unstable')
def _(I, a):
    lst, st, en = as_list(a[0])
    lst[st:en] = sorted(lst[st:en], key=lambda v: _sort_key_concrete(v, I))
    return Agg()


@model('std::slice::<impl [T]>::sort_by_key', 'core::slice::<impl [T]>::sort_unstable_by_key',
       'std::slice::<impl [T]>::sort_by_cached_key')
def _(I, a):
    lst, st, en = as_list(a[0])
    keyed = [(_sort_key_concrete(I.call_closure(a[1], [Ref(Slot([x], 0))]), I), i, x) for i, x in enumerate(lst[st:en])]
    keyed.sort(key=lambda t: t[0])   # Python's sort is stable, like sort_by_key
    lst[st:en] = [t[2] for t in keyed]
    return Agg()


@model('std::slice::<impl [T]>::sort_by', 'core::slice::<impl [T]>::sort_unstable_by')
def _(I, a):
    import functools
    lst, st, en = as_list(a[0])

    def cmpf(x, y):
        r = I.call_closure(a[1], [Ref(Slot([x], 0)), Ref(Slot([y], 0))])
        return {'Less': -1, 'Equal': 0, 'Greater': 1}[r.variant]

    lst[st:en] = sorted(lst[st:en], key=functools.cmp_to_key(cmpf))
    return Agg()


# ---------------- Option / Result -----------------
@model('std::option::Option::unwrap')
def _(I, a):
    v = a[0]
    if v.variant == 'None':
        raise RustPanic('called `Option::unwrap()` on a `None` value')
    return v.fields[0]


@model('std::option::Option::expect')
def _(I, a):
    v = a[0]
    if v.variant == 'None':
        raise RustPanic('Option::expect failed')
    return v.fields[0]


@model('std::result::Result::unwrap', 'std::result::Result::expect')
def _(I, a):
    v = a[0]
    if v.variant == 'Err':
        raise RustPanic('called `Result::unwrap()` on an `Err` value')
    return v.fields[0]


@model('std::option::Option::unwrap_or', 'std::result::Result::unwrap_or')
def _(I, a):
    return a[0].fields[0] if a[0].variant in ('Some', 'Ok') else a[1]


@model('std::option::Option::unwrap_or_else')
def _(I, a):
    return a[0].fields[0] if a[0].variant == 'Some' else I.call_closure(a[1], [])


@model('std::option::Option::unwrap_or_default')
def _(I, a):
    if a[0].variant == 'Some':
        return a[0].fields[0]
    m = re.search(r'Option::<(.*)>::unwrap_or_default', I.cur_func)
    return default_val(I, strip_generics(m.group(1)) if m else 'usize')


@model('std::option::Option::and_then')
def _(I, a):
    o, clo = a
    return NONE() if o.variant == 'None' else I.call_closure(clo, [o.fields[0]])


@model('std::option::Option::map')
def _(I, a):
    o, clo = a
    return NONE() if o.variant == 'None' else some(I.call_closure(clo, [o.fields[0]]))


@model('std::option::Option::map_or')
def _(I, a):
    o, dflt, clo = a
    return dflt if o.variant == 'None' else I.call_closure(clo, [o.fields[0]])


@model('std::option::Option::map_or_else')
def _(I, a):
    o, dflt, clo = a
    return I.call_closure(dflt, []) if o.variant == 'None' else I.call_closure(clo, [o.fields[0]])


@model('std::option::Option::filter')
def _(I, a):
    o, clo = a
    if o.variant == 'None':
        return o
    return o if I.branch(I.call_closure(clo, [Ref(Slot(o.fields, 0))])) else NONE()


@model('std::option::Option::or')
def _(I, a):
    return a[0] if a[0].variant == 'Some' else a[1]


@model('std::option::Option::or_else')
def _(I, a):
    return a[0] if a[0].variant == 'Some' else I.call_closure(a[1], [])


@model('std::option::Option::and')
def _(I, a):
    return a[1] if a[0].variant == 'Some' else NONE()


@model('std::option::Option::zip')
def _(I, a):
    if a[0].variant == 'Some' and a[1].variant == 'Some':
        return some(Agg([a[0].fields[0], a[1].fields[0]]))
    return NONE()


@model('std::option::Option::ok_or')
def _(I, a):
    return ok(a[0].fields[0]) if a[0].variant == 'Some' else err(a[1])


@model('std::option::Option::is_none')
def _(I, a):
    return deref(a[0]).variant == 'None'


@model('std::option::Option::is_some')
def _(I, a):
    return deref(a[0]).variant == 'Some'


@model('std::option::Option::is_some_and')
def _(I, a):
    o = a[0]
    return False if o.variant == 'None' else I.call_closure(a[1], [o.fields[0]])


@model('std::option::Option::as_ref', 'std::option::Option::as_mut')
def _(I, a):
    o = deref(a[0])
    return NONE() if o.variant == 'None' else some(Ref(Slot(o.fields, 0)))


@model('std::option::Option::take')
def _(I, a):
    o = deref(a[0])
    r = Enum('Option', o.variant, list(o.fields))
    o.variant, o.fields = 'None', []
    return r


@model('std::option::Option::copied', 'std::option::Option::cloned')
def _(I, a):
    o = a[0]
    return NONE() if o.variant == 'None' else some(clone_val(deref(o.fields[0])))


@model('std::result::Result::is_err')
def _(I, a):
    return deref(a[0]).variant == 'Err'


@model('std::result::Result::is_ok')
def _(I, a):
    return deref(a[0]).variant == 'Ok'


@model('std::result::Result::ok')
def _(I, a):
    return some(a[0].fields[0]) if a[0].variant == 'Ok' else NONE()


@model('std::result::Result::map_err')
def _(I, a):
    r = a[0]
    return r if r.variant == 'Ok' else err(I.call_closure(a[1], [r.fields[0]]))


@model('std::result::Result::map')
def _(I, a):
    r = a[0]
    return r if r.variant == 'Err' else ok(I.call_closure(a[1], [r.fields[0]]))


@model('std::result::Result::and_then')
def _(I, a):
    r = a[0]
    return r if r.variant == 'Err' else I.call_closure(a[1], [r.fields[0]])


# ---------------- ranges, ints, cmp -----------------
@model('std::ops::Range::contains', 'std::ops::RangeInclusive::contains')
def _(I, a):
    r = deref(a[0])
    x = deref(a[1])
    if 'Inclusive' in I.cur_func:
        return r[0] <= x <= r[1]
    return r[0] <= x < r[1]


@model('std::ops::Range::is_empty')
def _(I, a):
    r = deref(a[0])
    return not (r[0] < r[1])


@model('std::ops::RangeInclusive::new')
def _(I, a):
    return TAgg('std::ops::RangeInclusive', [a[0], a[1]])


@model('std::ops::RangeInclusive::start')
def _(I, a):
    return Ref(Slot(deref(a[0]), 0))


@model('std::ops::RangeInclusive::end')
def _(I, a):
    return Ref(Slot(deref(a[0]), 1))


@itermethod('len')
def _(I, a):
    return it_len(I, as_iter(I, a[0]))


def _scalars(a, I=None):
    x, y = deref(a[0]), deref(a[1])
    if is_sym(x) or is_sym(y):
        raise Unsupported('symbolic ordering')
    if isinstance(x, (bool, int)) and isinstance(y, (bool, int)):
        return x, y
    # tuples, strings, Option, Reverse ...: the derived / lexicographic orders, via the sort key
    return _sort_key_concrete(x, I), _sort_key_concrete(y, I)


def ord_min(I, a):
    x, y = _scalars(a, I)
    return a[0] if not (y < x) else a[1]      # Ord::min returns self when equal


def ord_max(I, a):
    x, y = _scalars(a, I)
    return a[1] if not (y < x) else a[0]      # Ord::max returns other when equal


def ord_cmp(I, a):
    x, y = _scalars(a, I)
    return Enum('Ordering', 'Less' if x < y else ('Equal' if x == y else 'Greater'), [])


def ord_rel(I, a, meth):
    x, y = deref(a[0]), deref(a[1])
    if isinstance(x, Opaque) and x.kind == 'instant':
        return instant_rel(I, x, y, meth)
    x, y = _scalars(a, I)
    return {'lt': x < y, 'le': not (y < x), 'gt': y < x, 'ge': not (x < y)}[meth]


EXACT['std::cmp::min'] = ord_min
EXACT['std::cmp::max'] = ord_max


def _w():
    return (1 << 64) - 1


@model('core::num::<impl usize>::saturating_sub')
def _(I, a):
    return max(0, a[0] - a[1])


@model('core::num::<impl usize>::saturating_add')
def _(I, a):
    return min(_w(), a[0] + a[1])


@model('core::num::<impl usize>::checked_sub')
def _(I, a):
    return some(a[0] - a[1]) if a[0] >= a[1] else NONE()


@model('core::num::<impl usize>::checked_add')
def _(I, a):
    return some(a[0] + a[1]) if a[0] + a[1] <= _w() else NONE()


@model('core::num::<impl usize>::wrapping_sub')
def _(I, a):
    return (a[0] - a[1]) & _w()


@model('core::num::<impl usize>::wrapping_add')
def _(I, a):
    return (a[0] + a[1]) & _w()


@model('core::num::<impl usize>::abs_diff')
def _(I, a):
    return abs(a[0] - a[1])


@model('core::num::<impl usize>::pow')
def _(I, a):
    r = a[0] ** a[1]
    if r > _w():
        raise RustPanic('attempt to multiply with overflow')
    return r


@model('std::mem::swap')
def _(I, a):
    x, y = a[0].slot, a[1].slot
    t = x.get()
    x.set(y.get())
    y.set(t)
    return Agg()


@model('std::mem::replace')
def _(I, a):
    x = a[0].slot
    t = x.get()
    x.set(a[1])
    return t


@model('std::mem::take')
def _(I, a):
    x = a[0].slot
    t = x.get()
    if isinstance(t, VecObj):
        x.set(VecObj())
    elif isinstance(t, StringObj):
        x.set(StringObj([]))
    elif isinstance(t, Enum) and t.ty == 'Option':
        x.set(NONE())
    elif isinstance(t, int):
        x.set(0)
    else:
        raise Unsupported('mem::take of ' + type(t).__name__)
    return t


@model('std::mem::drop')
def _(I, a):
    return Agg()


@model('std::hint::must_use', 'std::convert::identity')
def _(I, a):
    return a[0]


# ---------------- Box / Rc / HashMap / HashSet -----------------
@model('std::boxed::Box::new')
def _(I, a):
    return mk_box(a[0])


@model('std::boxed::Box::new_uninit')
def _(I, a):
    mu = Agg([Agg(), Agg([Agg([None])])])  # MaybeUninit { uninit: (), value: ManuallyDrop(MaybeDangling(T)) }
    return mk_box(mu)


@model('std::boxed::box_assume_init_into_vec_unsafe')
def _(I, a):
    arr = unbox(a[0])[1][0][0]
    return VecObj(list(arr))


@model('std::rc::Rc::new', 'std::sync::Arc::new')
def _(I, a):
    return RcObj(a[0])


EXACT['<std::rc::Rc as std::clone::Clone>::clone'] = lambda I, a: deref(a[0])
EXACT['std::rc::Rc::clone'] = lambda I, a: deref(a[0])


@model('std::collections::HashMap::new', 'std::collections::HashMap::with_capacity')
def _(I, a):
    return MapObj()


def map_insert(I, m, k, v):
    for ent in m.items:
        if I.branch(val_eq(I, ent[0], k)):
            old = ent[1]
            ent[1] = v
            return some(old)
    m.items.append([k, v])
    return NONE()


@model('std::collections::HashMap::insert')
def _(I, a):
    m = deref(a[0])
    for ent in m.items:
        if I.branch(val_eq(I, ent[0], a[1])):
            old = ent[1]
            ent[1] = a[2]
            return some(old)
    m.items.append([a[1], a[2]])
    return NONE()


@model('std::collections::HashMap::get', 'std::collections::HashMap::get_mut')
def _(I, a):
    m = deref(a[0])
    for ent in m.items:
        if I.branch(val_eq(I, ent[0], a[1])):
            return some(Ref(Slot(ent, 1)))
    return NONE()


@model('std::collections::HashMap::contains_key')
def _(I, a):
    m = deref(a[0])
    for ent in m.items:
        if I.branch(val_eq(I, ent[0], a[1])):
            return True
    return False


@model('std::collections::HashSet::new', 'std::collections::HashSet::with_capacity')
def _(I, a):
    return SetObj([])


@model('std::collections::HashSet::contains')
def _(I, a):
    s = deref(a[0])
    for kk in s.items:
        if I.branch(val_eq(I, kk, a[1])):
            return True
    return False


@model('std::collections::HashSet::insert')
def _(I, a):
    s = deref(a[0])
    for kk in s.items:
        if I.branch(val_eq(I, kk, a[1])):
            return False
    s.items.append(a[1])
    return True


def set_dedup(I, s):
    if getattr(s, 'raw', False):
        out = []
        for v in s.items:
            if not any(I.branch(val_eq(I, v, w)) for w in out):
                out.append(v)
        s.items[:] = out
        s.raw = False
    if getattr(s, 'sorted', False):    # BTreeSet: iteration in key order (concrete keys only)
        s.items.sort(key=lambda v: _sort_key_concrete(v, I))
    return s


@model('std::collections::HashSet::is_empty')
def _(I, a):
    return not deref(a[0]).items


@model('std::collections::HashSet::len')
def _(I, a):
    return len(set_dedup(I, deref(a[0])).items)


@model('std::collections::HashSet::iter')
def _(I, a):
    # (iteration order of a HashSet is unspecified; the model iterates in insertion order - any / all / find-by-equality do not depend on it)
    s = set_dedup(I, deref(a[0]))
    return Iter('slice_iter', lst=s.items, pos=0, end=len(s.items))


# ---------------- fmt / panics -----------------
@model('core::fmt::rt::Argument::new_display', 'core::fmt::rt::Argument::new_debug')
def _(I, a):
    m = re.search(r'new_(?:display|debug)::<(.*)>$', I.cur_func)
    return Opaque('fmtarg', how='display' if 'display' in I.cur_func else 'debug', v=deref(a[0]), ty=(m.group(1).lstrip('&').strip() if m else None))


@model('core::fmt::rt::Argument::from_usize')
def _(I, a):
    return Opaque('fmtarg', how='usize', v=deref(a[0]))


@model('std::fmt::Arguments::new', 'std::fmt::Arguments::from_str', 'std::fmt::Arguments::new_const')
def _(I, a):
    return Opaque('fmtargs', tpl=a[0], args=deref(a[1]) if len(a) > 1 else [])


def render_args(I, fa):
    tpl, args = fa.tpl, fa.args
    if isinstance(tpl, (StrRef,)):
        return list(tpl.bytes())
    if isinstance(tpl, Ref):
        tpl = deref(tpl)
    if isinstance(tpl, Agg):  # older lowering: &[&str] pieces
        raise Unsupported('fmt pieces lowering')
    t = tpl.lst[tpl.start:(len(tpl.lst) if tpl.end is None else tpl.end)]
    lst, st, en = as_list(args) if not isinstance(args, list) else (args, 0, len(args))
    args = lst[st:en]
    i = 0
    out = []
    nxt = 0
    while True:
        n = t[i]
        i += 1
        if n == 0:
            break
        if n < 0x80:
            out.extend(t[i:i + n])
            i += n
        elif n == 0x80:
            ln = t[i] | (t[i + 1] << 8)
            i += 2
            out.extend(t[i:i + ln])
            i += ln
        else:
            assert n & 0xC0 == 0xC0
            flags = 0xE0000020
            width = None
            argi = None
            if n & 1:
                flags = int.from_bytes(bytes(t[i:i + 4]), 'little')
                i += 4
            if n & 2:
                width = t[i] | (t[i + 1] << 8)
                i += 2
            if n & 4:
                raise Unsupported('fmt precision')
            if n & 8:
                argi = t[i] | (t[i + 1] << 8)
                i += 2
            if n & 16:
                width = args[width].v
            if argi is None:
                argi = nxt
            nxt = argi + 1
            arg = args[argi]
            v = deref(arg.v)
            if isinstance(v, bool):
                body = list(str(v).lower().encode())
                numeric = False
            elif isinstance(v, int) and getattr(arg, 'ty', None) == 'char':
                if arg.how == 'debug':
                    raise Unsupported('Debug formatting')
                body = list(chr(v).encode())
                numeric = False
            elif isinstance(v, int):
                body = list(str(v).encode())
                numeric = True
            elif isinstance(v, (StringObj, StrRef)):
                body = list(as_bytes(v))
                numeric = False
                if arg.how == 'debug':
                    raise Unsupported('Debug formatting')
            else:
                raise Unsupported('fmt arg ' + type(v).__name__)
            if flags & ((1 << 21) | (1 << 23) | (1 << 25) | (1 << 26)):
                raise Unsupported('fmt flags + / # / hex-debug')
            if width is not None:
                if any(is_sym(x) for x in body):
                    raise Unsupported('width with symbolic text')
                nchars = len(bytes(body).decode())
                pad = max(0, width - nchars)
                fill = list(chr(flags & 0x1FFFFF).encode())
                align = (flags >> 29) & 3
                if numeric and flags & (1 << 24):
                    # sign-aware zero padding: the zeros go between the sign and the digits, fill and alignment are ignored
                    sign = body[:1] if body[:1] in ([45], [43]) else []
                    body = sign + [48] * pad + body[len(sign):]
                    pad = 0
                if align == 3:
                    align = 1 if numeric else 0
                if align == 0:
                    body = body + fill * pad
                elif align == 1:
                    body = fill * pad + body
                else:
                    body = fill * (pad // 2) + body + fill * (pad - pad // 2)
            out.extend(body)
    return out


@model('std::fmt::format')
def _(I, a):
    return StringObj(render_args(I, a[0]))


@model('core::panicking::panic_fmt', 'std::rt::panic_fmt')
def _(I, a):
    try:
        msg = bytes(render_args(I, a[0])).decode(errors='replace')
    except Exception:
        msg = '<fmt>'
    raise RustPanic('explicit panic: ' + msg)


@model('core::panicking::panic', 'core::panicking::panic_explicit', 'std::rt::begin_panic',
       'core::panicking::unreachable_display', 'core::panicking::panic_display',
       'core::option::unwrap_failed', 'core::option::expect_failed', 'core::result::unwrap_failed',
       'core::panicking::panic_bounds_check', 'core::panicking::assert_failed')
def _(I, a):
    raise RustPanic('panic: ' + I.cur_func)


# ---------------- chrono stub (DESIGN.md §4.4) -----------------
def instant_rel(I, x, y, meth):
    """order of two instants (secs, frac, nanos): frac marks a leap second (secs + 10^9 ns + nanos), nanos the sub-second part"""
    a, b = x.secs, y.secs
    fa, fb = getattr(x, 'frac', False), getattr(y, 'frac', False)
    na, nb = getattr(x, 'nanos', 0), getattr(y, 'nanos', 0)
    if not any(is_sym(v) for v in (a, b, fa, fb, na, nb)):
        ka, kb = (a, bool(fa), na), (b, bool(fb), nb)
        return {'lt': ka < kb, 'le': ka <= kb, 'gt': ka > kb, 'ge': ka >= kb}[meth]
    za = a if is_sym(a) else z3.BitVecVal(a, 64)
    zb = b if is_sym(b) else z3.BitVecVal(b, 64)
    bf = lambda v: v if is_sym(v) else z3.BoolVal(bool(v))
    nanos0 = (not is_sym(na) and na == 0) and (not is_sym(nb) and nb == 0)
    if fa is False and fb is False and nanos0:
        return {'lt': za < zb, 'le': za <= zb, 'gt': za > zb, 'ge': za >= zb}[meth]
    if nanos0:
        lt = z3.Or(za < zb, z3.And(za == zb, z3.Not(bf(fa)), bf(fb)))
        eq = z3.And(za == zb, bf(fa) == bf(fb))
    else:
        zn = lambda v: (z3.ZeroExt(64 - v.size(), v) if v.size() < 64 else v) if is_sym(v) else z3.BitVecVal(v, 64)
        # sub-second key = leap * 10^9 + nanos
        ka = z3.If(bf(fa), z3.BitVecVal(10 ** 9, 64), z3.BitVecVal(0, 64)) + zn(na)
        kb = z3.If(bf(fb), z3.BitVecVal(10 ** 9, 64), z3.BitVecVal(0, 64)) + zn(nb)
        lt = z3.Or(za < zb, z3.And(za == zb, z3.ULT(ka, kb)))
        eq = z3.And(za == zb, ka == kb)
    return {'lt': lt, 'le': z3.Or(lt, eq), 'gt': z3.Not(z3.Or(lt, eq)), 'ge': z3.Not(lt)}[meth]


@model('<std::option::Option as std::ops::Try>::branch')
def _(I, a):
    o = a[0]
    return Enum('ControlFlow', 'Continue', [o.fields[0]]) if o.variant == 'Some' else Enum('ControlFlow', 'Break', [NONE()])


@model('<std::result::Result as std::ops::Try>::branch')
def _(I, a):
    r = a[0]
    return Enum('ControlFlow', 'Continue', [r.fields[0]]) if r.variant == 'Ok' else Enum('ControlFlow', 'Break', [err(r.fields[0])])


@model('<std::option::Option as std::ops::FromResidual>::from_residual')
def _(I, a):
    return NONE()


@model('<std::result::Result as std::ops::FromResidual>::from_residual')
def _(I, a):
    return err(a[0].fields[0])


import chrono_stub  # noqa: E402  (registers its models)


# ---------------- a wider std surface (so that ordinary refactorings of chiritori stay inside the encoder) -----------------
def _conc(*vs):
    for v in vs:
        if is_sym(v):
            raise Unsupported('symbolic value where the model needs a concrete one')


@model('core::slice::<impl [T]>::windows')
def _(I, a):
    lst, st, en = as_list(a[0])
    n = a[1]
    if n == 0:
        raise RustPanic('window size must be non-zero')
    return Iter('into_iter', lst=[SliceRef(lst, i, i + n) for i in range(st, en - n + 1)], pos=0, end=max(0, en - st - n + 1))


@model('core::slice::<impl [T]>::chunks')
def _(I, a):
    lst, st, en = as_list(a[0])
    n = a[1]
    if n == 0:
        raise RustPanic('chunk size must be non-zero')
    ch = [SliceRef(lst, i, min(i + n, en)) for i in range(st, en, n)]
    return Iter('into_iter', lst=ch, pos=0, end=len(ch))


@model('std::vec::Vec::retain', 'std::vec::Vec::retain_mut')
def _(I, a):
    v = deref(a[0])
    keep = []
    for x in v.items:
        cell = [x]
        if I.branch(I.call_closure(a[1], [Ref(Slot(cell, 0))])):
            keep.append(cell[0])
    v.items[:] = keep
    return Agg()


@model('std::vec::Vec::split_off')
def _(I, a):
    v = deref(a[0])
    if a[1] > len(v.items):
        raise RustPanic('`at` split index out of bounds')
    tail = v.items[a[1]:]
    del v.items[a[1]:]
    return VecObj(tail)


@model('core::slice::<impl [T]>::swap')
def _(I, a):
    lst, st, en = as_list(a[0])
    i, j = a[1], a[2]
    if i >= en - st or j >= en - st:
        raise RustPanic('index out of bounds (swap)')
    lst[st + i], lst[st + j] = lst[st + j], lst[st + i]
    return Agg()


@model('std::vec::Vec::swap_remove')
def _(I, a):
    v = deref(a[0])
    if a[1] >= len(v.items):
        raise RustPanic('swap_remove index out of bounds')
    x = v.items[a[1]]
    v.items[a[1]] = v.items[-1]
    v.items.pop()
    return x


@model('core::slice::<impl [T]>::partition_point')
def _(I, a):
    lst, st, en = as_list(a[0])
    k = 0
    # binary search semantics on a partitioned slice = first index where the predicate is false
    lo, hi = 0, en - st
    while lo < hi:
        mid = lo + (hi - lo) // 2
        if I.branch(I.call_closure(a[1], [Ref(Slot(lst, st + mid))])):
            lo = mid + 1
        else:
            hi = mid
    return lo


@model('core::slice::<impl [T]>::binary_search')
def _(I, a):
    lst, st, en = as_list(a[0])
    x = deref(a[1])
    _conc(x, *lst[st:en])
    lo, hi = 0, en - st
    while lo < hi:
        mid = lo + (hi - lo) // 2
        v = deref(lst[st + mid])
        if v == x:
            return ok(mid)
        if v < x:
            lo = mid + 1
        else:
            hi = mid
    return err(lo)


@model('core::slice::<impl [T]>::starts_with')
def _(I, a):
    l1, s1, e1 = as_list(a[0])
    l2, s2, e2 = as_list(a[1])
    if e2 - s2 > e1 - s1:
        return False
    return b_and(val_eq(I, p, q) for p, q in zip(l1[s1:s1 + e2 - s2], l2[s2:e2]))


@model('core::str::<impl str>::split_once')
def _(I, a):
    s = as_str(a[0])
    pat = pattern_of(a[1])
    i = s.start
    while i <= s.end:
        n = match_at(I, s, i, pat)
        if n:
            return some(Agg([StrRef(s.buf, s.start, i), StrRef(s.buf, i + n, s.end)]))
        i += 1
    return NONE()


@model('core::str::<impl str>::rsplit_once')
def _(I, a):
    s = as_str(a[0])
    pat = pattern_of(a[1])
    i = s.end
    while i >= s.start:
        n = match_at(I, s, i, pat, backwards=True)
        if n:
            return some(Agg([StrRef(s.buf, s.start, i - n), StrRef(s.buf, i, s.end)]))
        i -= 1
    return NONE()


@model('core::str::<impl str>::split_whitespace', 'core::str::<impl str>::split_ascii_whitespace')
def _(I, a):
    s = as_str(a[0])
    ascii_only = 'split_ascii_whitespace' in I.cur_func
    out = []
    i = s.start
    cur = None
    while i < s.end:
        c, w = decode_at(I, s, i)
        if (I.branch(b_or(b_eq(c, v_) for v_ in (9, 10, 12, 13, 32))) if ascii_only else is_ws_char(I, c)):
            if cur is not None:
                out.append(StrRef(s.buf, cur, i))
                cur = None
        elif cur is None:
            cur = i
        i += w
    if cur is not None:
        out.append(StrRef(s.buf, cur, s.end))
    return Iter('into_iter', lst=out, pos=0, end=len(out))


@model('core::str::<impl str>::trim_matches')
def _(I, a):
    s = as_str(a[0])
    pat = pattern_of(a[1])
    st, en = s.start, s.end
    while st < en:
        n = match_at(I, StrRef(s.buf, st, en), st, pat)
        if not n:
            break
        st += n
    while en > st:
        n = match_at(I, StrRef(s.buf, st, en), en, pat, backwards=True)
        if not n:
            break
        en -= n
    return StrRef(s.buf, st, en)


@model('core::str::<impl str>::splitn')
def _(I, a):
    s = as_str(a[0])
    n = a[1]
    pat = pattern_bytes(a[2])
    out = []
    pos = s.start
    while len(out) + 1 < n:
        r = find_from(I, StrRef(s.buf, pos, s.end), pat, pos)
        if r is None:
            break
        out.append(StrRef(s.buf, pos, r))
        pos = r + len(pat)
    if n > 0:
        out.append(StrRef(s.buf, pos, s.end))
    return Iter('into_iter', lst=out, pos=0, end=len(out))


@model('core::str::<impl str>::rsplit', 'core::str::<impl str>::split_terminator', 'core::str::<impl str>::split_inclusive')
def _(I, a):
    s = as_str(a[0])
    pat = pattern_bytes(a[1])
    out = []
    pos = s.start
    while True:
        r = find_from(I, StrRef(s.buf, pos, s.end), pat, pos)
        if r is None:
            break
        out.append(StrRef(s.buf, pos, r + (len(pat) if 'inclusive' in I.cur_func else 0)))
        pos = r + len(pat)
    if not (('terminator' in I.cur_func or 'inclusive' in I.cur_func) and pos == s.end):
        out.append(StrRef(s.buf, pos, s.end))
    if 'rsplit' in I.cur_func:
        out.reverse()
    return Iter('into_iter', lst=out, pos=0, end=len(out))


@model('core::str::<impl str>::char_indices_rev_helper')
def _(I, a):
    raise Unsupported('placeholder')


def _char_class(name, conc):
    def f(I, a):
        c = deref(a[0])
        if is_sym(c):
            if I.branch(z3.ULT(c, 128)):
                for v in range(128):
                    pass
                raise Unsupported('Unicode class of a symbolic char: ' + name)
            raise Unsupported('Unicode class of a symbolic char: ' + name)
        return conc(chr(c))
    EXACT['core::char::methods::<impl char>::' + name] = f


_char_class('is_alphanumeric', lambda ch: ch.isalnum())
_char_class('is_alphabetic', lambda ch: ch.isalpha())
_char_class('is_numeric', lambda ch: ch.isnumeric())
_char_class('is_control', lambda ch: ord(ch) < 32 or 127 <= ord(ch) < 160)
_char_class('is_uppercase', lambda ch: ch.isupper())
_char_class('is_lowercase', lambda ch: ch.islower())


@model('std::iter::once')
def _(I, a):
    return Iter('into_iter', lst=[a[0]], pos=0, end=1)


@model('std::iter::empty')
def _(I, a):
    return Iter('into_iter', lst=[], pos=0, end=0)


@model('std::iter::successors')
def _(I, a):
    return Iter('successors', cur=[a[0]], f=a[1])


_it_next_prev = it_next


def it_next(I, it):  # noqa: F811  (extension of the iterator protocol)
    if it.kind == 'successors':
        o = it.cur[0]
        if o.variant == 'None':
            return None
        v = o.fields[0]
        it.cur[0] = I.call_closure(it.f, [Ref(Slot([v], 0))])
        return v
    return _it_next_prev(I, it)


@model('std::option::Option::xor')
def _(I, a):
    x, y = a
    if (x.variant == 'Some') != (y.variant == 'Some'):
        return x if x.variant == 'Some' else y
    return NONE()


@model('std::option::Option::flatten')
def _(I, a):
    return a[0].fields[0] if a[0].variant == 'Some' else NONE()


@model('std::option::Option::insert', 'std::option::Option::get_or_insert', 'std::option::Option::get_or_insert_with')
def _(I, a):
    o = deref(a[0])
    if 'get_or_insert' in I.cur_func and o.variant == 'Some':
        return Ref(Slot(o.fields, 0))
    v = I.call_closure(a[1], []) if 'insert_with' in I.cur_func else a[1]
    o.variant, o.fields = 'Some', [v]
    return Ref(Slot(o.fields, 0))


@model('std::option::Option::replace')
def _(I, a):
    o = deref(a[0])
    old = Enum('Option', o.variant, list(o.fields))
    o.variant, o.fields = 'Some', [a[1]]
    return old


@model('std::option::Option::is_none_or')
def _(I, a):
    o = a[0]
    return True if o.variant == 'None' else I.call_closure(a[1], [o.fields[0]])


@model('std::option::Option::inspect')
def _(I, a):
    o = a[0]
    if o.variant == 'Some':
        I.call_closure(a[1], [Ref(Slot(o.fields, 0))])
    return o


@model('std::option::Option::ok_or')
def _(I, a):
    return ok(a[0].fields[0]) if a[0].variant == 'Some' else err(a[1])


@model('std::string::String::pop')
def _(I, a):
    so = deref(a[0])
    if not so.buf:
        return NONE()
    s = StrRef(so.buf, 0, len(so.buf))
    p = char_start_before(I, s, len(so.buf))
    c, w = decode_at(I, s, p)
    del so.buf[p:]
    return some(c)


@model('std::string::String::remove')
def _(I, a):
    so = deref(a[0])
    s = StrRef(so.buf, 0, len(so.buf))
    if a[1] >= len(so.buf) or not is_boundary(I, s, a[1]):
        raise RustPanic('cannot remove a char from the end of a string / not a char boundary')
    c, w = decode_at(I, s, a[1])
    del so.buf[a[1]:a[1] + w]
    return c


@model('std::string::String::insert')
def _(I, a):
    so = deref(a[0])
    if a[1] > len(so.buf) or not is_boundary(I, StrRef(so.buf, 0, len(so.buf)), a[1]):
        raise RustPanic('String::insert: not a char boundary')
    so.buf[a[1]:a[1]] = encode_char(a[2])
    return Agg()


@model('std::string::String::clear')
def _(I, a):
    del deref(a[0]).buf[:]
    return Agg()


@model('std::string::String::from_utf8', 'core::str::from_utf8')
def _(I, a):
    v = deref(a[0])
    bs = v.items if isinstance(v, VecObj) else as_list_bytes_generic(v)
    if any(is_sym(b) for b in bs):
        raise Unsupported('from_utf8 of symbolic bytes')
    try:
        bytes(bs).decode()
    except UnicodeDecodeError:
        return err(Opaque('utf8_error'))
    return ok(StringObj(list(bs)) if 'String' in I.cur_func else StrRef(list(bs), 0, len(bs)))


def as_list_bytes_generic(v):
    lst, st, en = as_list(v)
    return lst[st:en]


@model('std::string::String::from_utf8_lossy')
def _(I, a):
    bs = as_list_bytes_generic(a[0])
    if any(is_sym(b) for b in bs):
        raise Unsupported('from_utf8_lossy of symbolic bytes')
    out = list(bytes(bs).decode(errors='replace').encode())
    return Enum('Cow', 'Owned', [StringObj(out)])


@model('core::num::<impl usize>::clamp', '<usize as std::cmp::Ord>::clamp')
def _(I, a):
    x, lo, hi = a
    _conc(x, lo, hi)
    if lo > hi:
        raise RustPanic('assertion failed: min <= max')
    return min(max(x, lo), hi)


@model('core::num::<impl usize>::min', 'core::num::<impl usize>::max')
def _(I, a):
    _conc(a[0], a[1])
    return min(a[0], a[1]) if I.cur_func.endswith('min') else max(a[0], a[1])


def _by_key(I, a, pick_max):
    it = as_iter(I, a[0])
    best = None
    bk = None
    while True:
        v = it_next(I, it)
        if v is None:
            return opt(best)
        k = _sort_key_concrete(I.call_closure(a[1], [Ref(Slot([v], 0))]))
        if best is None or (k >= bk if pick_max else k < bk):
            best, bk = v, k


ITER_METHODS['max_by_key'] = lambda I, a: _by_key(I, a, True)
ITER_METHODS['min_by_key'] = lambda I, a: _by_key(I, a, False)


@itermethod('nth_back')
def _(I, a):
    it = as_iter(I, a[0])
    for _ in range(a[1]):
        if it_next_back(I, it) is None:
            return NONE()
    return opt(it_next_back(I, it))


@itermethod('partition')
def _(I, a):
    it = as_iter(I, a[0])
    yes, no = [], []
    while True:
        v = it_next(I, it)
        if v is None:
            return Agg([VecObj(yes), VecObj(no)])
        (yes if I.branch(I.call_closure(a[1], [Ref(Slot([v], 0))])) else no).append(v)


@itermethod('unzip')
def _(I, a):
    it = as_iter(I, a[0])
    xs, ys = [], []
    while True:
        v = it_next(I, it)
        if v is None:
            return Agg([VecObj(xs), VecObj(ys)])
        v = deref(v)
        xs.append(v[0])
        ys.append(v[1])


@itermethod('eq')
def _(I, a):
    x, y = as_iter(I, a[0]), as_iter(I, a[1])
    cs = []
    while True:
        p, q = it_next(I, x), it_next(I, y)
        if p is None or q is None:
            return b_and(cs) if (p is None and q is None) else False
        cs.append(val_eq(I, p, q))


@itermethod('product')
def _(I, a):
    it = as_iter(I, a[0])
    ty = _acc_ty(I)
    s = 1
    while True:
        v = it_next(I, it)
        if v is None:
            return s
        s = _acc_check(I, ty, s * deref(v), 'multiply')


@itermethod('is_empty')
def _(I, a):
    return it_len(I, as_iter(I, a[0])) == 0


@model('std::collections::HashMap::remove')
def _(I, a):
    m = deref(a[0])
    for i, ent in enumerate(m.items):
        if I.branch(val_eq(I, ent[0], a[1])):
            del m.items[i]
            return some(ent[1])
    return NONE()


@model('std::collections::HashMap::len')
def _(I, a):
    return len(deref(a[0]).items)


# Entry API: an entry is (map, key, the [key, value] cell or None)
@model('std::collections::HashMap::entry')
def _(I, a):
    m = deref(a[0])
    for ent in m.items:
        if I.branch(val_eq(I, ent[0], a[1])):
            return Opaque('map_entry', map=m, key=a[1], cell=ent)
    return Opaque('map_entry', map=m, key=a[1], cell=None)


def _entry_or(I, e, mk):
    if e.cell is None:
        e.cell = [e.key, mk()]
        e.map.items.append(e.cell)
    return Ref(Slot(e.cell, 1))


@model('std::collections::hash_map::Entry::or_insert', 'std::collections::hash_map::Entry::<K, V>::or_insert')
def _(I, a):
    return _entry_or(I, a[0], lambda: a[1])


@model('std::collections::hash_map::Entry::or_insert_with')
def _(I, a):
    return _entry_or(I, a[0], lambda: I.call_closure(a[1], []))


@model('std::collections::hash_map::Entry::or_default')
def _(I, a):
    e = a[0]
    if e.cell is None:
        raise Unsupported('Entry::or_default on a vacant entry (value type unknown here)')
    return Ref(Slot(e.cell, 1))


@model('std::collections::hash_map::Entry::and_modify')
def _(I, a):
    e = a[0]
    if e.cell is not None:
        I.call_closure(a[1], [Ref(Slot(e.cell, 1))])
    return e


@model('std::collections::HashMap::is_empty')
def _(I, a):
    return not deref(a[0]).items


@model('std::collections::HashMap::iter', 'std::collections::HashMap::into_iter')
def _(I, a):
    m = deref(a[0])
    raise Unsupported('iteration over a HashMap (order is unspecified)')


@model('std::collections::HashSet::remove')
def _(I, a):
    s = deref(a[0])
    for i, kk in enumerate(s.items):
        if I.branch(val_eq(I, kk, a[1])):
            del s.items[i]
            return True
    return False


@model('std::collections::HashSet::extend')
def _(I, a):
    return vec_extend(I, a)


@model('std::cmp::Ordering::is_lt', 'std::cmp::Ordering::is_le', 'std::cmp::Ordering::is_gt', 'std::cmp::Ordering::is_ge', 'std::cmp::Ordering::is_eq',
       'std::cmp::Ordering::is_ne')
def _(I, a):
    v = {'Less': -1, 'Equal': 0, 'Greater': 1}[deref(a[0]).variant]
    n = I.cur_func.rsplit('::', 1)[-1]
    return {'is_lt': v < 0, 'is_le': v <= 0, 'is_gt': v > 0, 'is_ge': v >= 0, 'is_eq': v == 0, 'is_ne': v != 0}[n]


@model('std::cmp::Ordering::reverse')
def _(I, a):
    return Enum('Ordering', {'Less': 'Greater', 'Equal': 'Equal', 'Greater': 'Less'}[a[0].variant], [])


@model('std::cmp::Ordering::then')
def _(I, a):
    return a[0] if a[0].variant != 'Equal' else a[1]


# ---------------- integer methods for every width (concrete values; the common ones also on bit-vector terms) -----------------
INT_METHODS = {}


def intmethod(*names):
    def deco(fn):
        for n in names:
            INT_METHODS[n] = fn
        return fn
    return deco


def _rng(ty):
    w = INT_W[ty]
    return (-(1 << (w - 1)), (1 << (w - 1)) - 1) if ty in SIGNED else (0, (1 << w) - 1)


def _wrap(ty, v):
    w = INT_W[ty]
    v &= (1 << w) - 1
    if ty in SIGNED and v >= 1 << (w - 1):
        v -= 1 << w
    return v


def _conc2(a):
    x, y = deref(a[0]), deref(a[1])
    if is_sym(x) or is_sym(y):
        return None
    return int(x), int(y)


def _zz(ty, v):
    return v if is_sym(v) else z3.BitVecVal(v, INT_W[ty])


def _lt(ty, x, y):
    return (x < y) if ty in SIGNED else z3.ULT(x, y)


@intmethod('saturating_sub', 'saturating_add', 'saturating_mul')
def _(I, ty, a, op=None):
    meth = re.search(r'::(\w+)$', strip_generics(I.cur_func)).group(1)
    c = _conc2(a)
    lo, hi = _rng(ty)
    if c:
        r = {'saturating_sub': c[0] - c[1], 'saturating_add': c[0] + c[1], 'saturating_mul': c[0] * c[1]}[meth]
        return max(lo, min(hi, r))
    if ty in SIGNED or meth == 'saturating_mul':
        raise Unsupported('symbolic ' + meth + ' on ' + ty)
    x, y = _zz(ty, deref(a[0])), _zz(ty, deref(a[1]))
    if meth == 'saturating_sub':
        return z3.If(z3.ULT(x, y), z3.BitVecVal(0, INT_W[ty]), x - y)
    return z3.If(z3.ULT(x + y, x), z3.BitVecVal(hi, INT_W[ty]), x + y)


@intmethod('checked_sub', 'checked_add', 'checked_mul', 'checked_div', 'checked_rem')
def _(I, ty, a):
    meth = re.search(r'::(\w+)$', strip_generics(I.cur_func)).group(1)
    c = _conc2(a)
    lo, hi = _rng(ty)
    if c:
        x, y = c
        if meth in ('checked_div', 'checked_rem'):
            if y == 0 or (ty in SIGNED and x == lo and y == -1):
                return NONE()
            q = abs(x) // abs(y) * (1 if (x < 0) == (y < 0) else -1)
            return some(q if meth == 'checked_div' else x - q * y)
        r = {'checked_sub': x - y, 'checked_add': x + y, 'checked_mul': x * y}[meth]
        return some(r) if lo <= r <= hi else NONE()
    if ty in SIGNED or meth not in ('checked_sub', 'checked_add'):
        raise Unsupported('symbolic ' + meth + ' on ' + ty)
    x, y = _zz(ty, deref(a[0])), _zz(ty, deref(a[1]))
    if meth == 'checked_sub':
        return NONE() if I.branch(z3.ULT(x, y)) else some(x - y)
    return NONE() if I.branch(z3.ULT(x + y, x)) else some(x + y)


@intmethod('wrapping_sub', 'wrapping_add', 'wrapping_mul', 'wrapping_neg')
def _(I, ty, a):
    meth = re.search(r'::(\w+)$', strip_generics(I.cur_func)).group(1)
    if meth == 'wrapping_neg':
        x = deref(a[0])
        return -x if is_sym(x) else _wrap(ty, -x)
    c = _conc2(a)
    if c:
        return _wrap(ty, {'wrapping_sub': c[0] - c[1], 'wrapping_add': c[0] + c[1], 'wrapping_mul': c[0] * c[1]}[meth])
    x, y = _zz(ty, deref(a[0])), _zz(ty, deref(a[1]))
    return {'wrapping_sub': x - y, 'wrapping_add': x + y, 'wrapping_mul': x * y}[meth]


@intmethod('overflowing_sub', 'overflowing_add', 'overflowing_mul')
def _(I, ty, a):
    meth = re.search(r'::(\w+)$', strip_generics(I.cur_func)).group(1)
    c = _conc2(a)
    if not c:
        raise Unsupported('symbolic ' + meth)
    lo, hi = _rng(ty)
    r = {'overflowing_sub': c[0] - c[1], 'overflowing_add': c[0] + c[1], 'overflowing_mul': c[0] * c[1]}[meth]
    return Agg([_wrap(ty, r), not (lo <= r <= hi)])


@intmethod('abs_diff')
def _(I, ty, a):
    c = _conc2(a)
    if c:
        return abs(c[0] - c[1])
    x, y = _zz(ty, deref(a[0])), _zz(ty, deref(a[1]))
    return z3.If(_lt(ty, x, y), y - x, x - y)


@intmethod('min', 'max')
def _(I, ty, a):
    meth = re.search(r'::(\w+)$', strip_generics(I.cur_func)).group(1)
    c = _conc2(a)
    if c:
        return min(c) if meth == 'min' else max(c)
    x, y = _zz(ty, deref(a[0])), _zz(ty, deref(a[1]))
    return z3.If(_lt(ty, y, x), y, x) if meth == 'min' else z3.If(_lt(ty, y, x), x, y)


@intmethod('clamp')
def _(I, ty, a):
    x, lo, hi = deref(a[0]), deref(a[1]), deref(a[2])
    if any(is_sym(v) for v in (x, lo, hi)):
        raise Unsupported('symbolic clamp')
    if lo > hi:
        raise RustPanic('assertion failed: min <= max')
    return max(lo, min(hi, x))


@intmethod('pow')
def _(I, ty, a):
    c = _conc2(a)
    if not c:
        raise Unsupported('symbolic pow')
    lo, hi = _rng(ty)
    r = c[0] ** c[1]
    if not lo <= r <= hi:
        raise RustPanic('attempt to multiply with overflow')
    return r


@intmethod('leading_zeros', 'trailing_zeros', 'count_ones', 'count_zeros', 'is_power_of_two', 'unsigned_abs', 'abs', 'signum', 'rem_euclid', 'div_euclid', 'div_ceil',
           'next_power_of_two', 'isqrt', 'ilog2', 'ilog10')
def _(I, ty, a):
    meth = re.search(r'::(\w+)$', strip_generics(I.cur_func)).group(1)
    vals = [deref(v) for v in a]
    if any(is_sym(v) for v in vals):
        raise Unsupported('symbolic ' + meth)
    x = int(vals[0])
    w = INT_W[ty]
    u = x & ((1 << w) - 1)
    lo, hi = _rng(ty)
    if meth == 'leading_zeros':
        return w - u.bit_length()
    if meth == 'trailing_zeros':
        return w if u == 0 else (u & -u).bit_length() - 1
    if meth == 'count_ones':
        return bin(u).count('1')
    if meth == 'count_zeros':
        return w - bin(u).count('1')
    if meth == 'is_power_of_two':
        return u != 0 and u & (u - 1) == 0
    if meth == 'unsigned_abs':
        return abs(x)
    if meth == 'abs':
        if x == lo and ty in SIGNED:
            raise RustPanic('attempt to negate with overflow')
        return abs(x)
    if meth == 'signum':
        return (x > 0) - (x < 0)
    if meth in ('rem_euclid', 'div_euclid', 'div_ceil'):
        y = int(vals[1])
        if y == 0:
            raise RustPanic('attempt to divide by zero')
        if meth == 'div_ceil':
            if ty in SIGNED:
                raise Unsupported('signed div_ceil')
            return -(-x // y)
        r = x % abs(y)          # Python: result has the sign of the divisor -> non-negative here
        if meth == 'rem_euclid':
            return r
        q = (x - r) // y
        if not lo <= q <= hi:
            raise RustPanic('attempt to divide with overflow')
        return q
    if meth == 'next_power_of_two':
        r = 1 if u <= 1 else 1 << (u - 1).bit_length()
        if r > hi:
            raise RustPanic('attempt to add with overflow')
        return r
    if meth == 'isqrt':
        import math
        if x < 0:
            raise RustPanic('argument of integer square root cannot be negative')
        return math.isqrt(x)
    if meth in ('ilog2', 'ilog10'):
        if x <= 0:
            raise RustPanic('argument of integer logarithm must be positive')
        return x.bit_length() - 1 if meth == 'ilog2' else len(str(x)) - 1
    raise Unsupported(meth)


# ---------------- str search with every pattern kind; more String / Vec / Option surface -----------------
def find_pat(I, s, pat, backwards=False):
    """absolute start offset of the first (last) match of a pattern (pattern_of) in s, or None; forks"""
    if not backwards:
        i = s.start
        while i <= s.end:
            n = match_at(I, s, i, pat)
            if n is not None:
                return i, n
            if i >= s.end:
                break
            if pat[0] == 'alts':
                i += 1
            else:
                i += decode_at(I, s, i)[1]
        return None
    i = s.end
    while i >= s.start:
        n = match_at(I, s, i, pat, backwards=True)
        if n is not None:
            return i - n, n
        if i <= s.start:
            break
        i = i - 1 if pat[0] == 'alts' else char_start_before(I, s, i)
    return None


def _find(I, a):
    s = as_str(a[0])
    r = find_pat(I, s, pattern_of(a[1]))
    return NONE() if r is None else some(r[0] - s.start)


def _rfind(I, a):
    s = as_str(a[0])
    r = find_pat(I, s, pattern_of(a[1]), backwards=True)
    return NONE() if r is None else some(r[0] - s.start)


def _contains(I, a):
    s = as_str(a[0])
    return find_pat(I, s, pattern_of(a[1])) is not None


EXACT['core::str::<impl str>::find'] = _find
EXACT['core::str::<impl str>::rfind'] = _rfind
EXACT['core::str::<impl str>::contains'] = _contains


@model('std::str::<impl str>::replacen')
def _(I, a):
    s = as_str(a[0])
    pat = pattern_of(a[1])
    rep = list(as_bytes(a[2]))
    count = a[3]
    if is_sym(count):
        raise Unsupported('symbolic replacen count')
    out, i, done = [], s.start, 0
    while done < count:
        r = find_pat(I, StrRef(s.buf, i, s.end), pat)
        if r is None or (r[1] == 0):
            if r is not None and r[1] == 0:
                raise Unsupported('replacen with an empty pattern')
            break
        out += s.buf[i:r[0]] + rep
        i = r[0] + r[1]
        done += 1
    return StringObj(out + s.buf[i:s.end])


@model('std::string::String::retain')
def _(I, a):
    so = deref(a[0])
    s = StrRef(so.buf, 0, len(so.buf))
    out, i = [], 0
    while i < s.end:
        c, w = decode_at(I, s, i)
        if I.branch(I.call_closure(a[1], [c])):
            out += so.buf[i:i + w]
        i += w
    so.buf[:] = out
    return Agg()


@model('std::string::String::drain')
def _(I, a):
    so = deref(a[0])
    n = len(so.buf)
    lo, hi = range_bounds(a[1], n)
    tmp = StrRef(so.buf, 0, n)
    if lo > hi:
        raise RustPanic(f'slice index starts at {lo} but ends at {hi}')
    if hi > n:
        raise RustPanic(f'range end index {hi} out of range for slice of length {n}')
    if not is_boundary(I, tmp, lo) or not is_boundary(I, tmp, hi):
        raise RustPanic('String::drain: assertion failed: self.is_char_boundary(n)')
    taken = list(so.buf[lo:hi])
    del so.buf[lo:hi]
    t = StrRef(taken, 0, len(taken))
    return ITER_MAKERS['chars'](I, [t]) if 'ITER_MAKERS' in globals() else EXACT['core::str::<impl str>::chars'](I, [t])


@model('std::string::String::split_off')
def _(I, a):
    so = deref(a[0])
    at = a[1]
    n = len(so.buf)
    if at > n or not is_boundary(I, StrRef(so.buf, 0, n), at):
        raise RustPanic('String::split_off: assertion failed: self.is_char_boundary(at)')
    tail = list(so.buf[at:])
    del so.buf[at:]
    return StringObj(tail)


@model('std::borrow::Cow::into_owned')
def _(I, a):
    c = a[0]
    v = c.fields[0]
    d = deref(v)
    if isinstance(d, (StrRef, StringObj)):
        return StringObj(list(as_bytes(d)))
    return to_owned(I, [v]) if c.variant == 'Borrowed' else v


def _vec_dedup(I, a):
    v = deref(a[0])
    out = []
    for x in v.items:
        if out and I.branch(val_eq(I, out[-1], x)):
            continue
        out.append(x)
    v.items[:] = out
    return Agg()


EXACT['std::vec::Vec::dedup'] = _vec_dedup


@model('core::slice::<impl [T]>::ends_with')
def _(I, a):
    lst, st, en = as_list(a[0])
    l2, s2, e2 = as_list(a[1])
    n = e2 - s2
    if n > en - st:
        return False
    return b_and(val_eq(I, x, y) for x, y in zip(lst[en - n:en], l2[s2:e2]))


@model('std::option::Option::iter', 'std::option::Option::iter_mut')
def _(I, a):
    o = deref(a[0])
    return Iter('slice_iter', lst=o.fields, pos=0, end=len(o.fields) if o.variant == 'Some' else 0)


@model('std::result::Result::unwrap_err', 'std::result::Result::expect_err')
def _(I, a):
    r = a[0]
    if r.variant == 'Ok':
        raise RustPanic('called `Result::unwrap_err()` on an `Ok` value')
    return r.fields[0]


@model('std::result::Result::err')
def _(I, a):
    r = a[0]
    return some(r.fields[0]) if r.variant == 'Err' else NONE()


@model('std::result::Result::ok_or', 'std::option::Option::ok_or')
def _(I, a):
    o = a[0]
    return ok(o.fields[0]) if o.variant == 'Some' else err(a[1])


@model('std::option::Option::as_deref', 'std::option::Option::as_deref_mut')
def _(I, a):
    o = deref(a[0])
    if o.variant == 'None':
        return NONE()
    v = deref(o.fields[0])
    return some(as_str(v) if isinstance(v, (StringObj, StrRef)) else v)


# ---------------- user-defined iterators, fmt::Write, more containers -----------------
_as_iter_prev = as_iter


def as_iter(I, v):  # noqa: F811
    d = deref(v)
    if isinstance(d, Agg) and d.ty and d.ty != '[array]' and (strip_generics(d.ty), 'Iterator', 'next') in I.impls:
        # a struct of the analysed crate that implements Iterator: `next` is its own code
        return Iter('user', obj=d, ty=strip_generics(d.ty))
    return _as_iter_prev(I, v)


_into_iter_prev = into_iter


def into_iter(I, a):  # noqa: F811
    d = deref(a[0])
    if isinstance(d, Agg) and d.ty and d.ty != '[array]' and (strip_generics(d.ty), 'Iterator', 'next') in I.impls:
        return Iter('user', obj=d, ty=strip_generics(d.ty))
    return _into_iter_prev(I, a)


_it_next_prev2 = it_next


def it_next(I, it):  # noqa: F811
    if it.kind == 'user':
        r = I.call(I.impls[(it.ty, 'Iterator', 'next')], [Ref(Slot([it.obj], 0))])
        return None if r.variant == 'None' else r.fields[0]
    if it.kind == 'cycle':
        if not it.items:
            return None
        v = it.items[it.pos % len(it.items)]
        it.pos += 1
        return v
    return _it_next_prev2(I, it)


@itermethod('cycle')
def _(I, a):
    it = as_iter(I, a[0])
    items = []
    while True:
        v = it_next(I, it)
        if v is None:
            break
        items.append(v)
        if len(items) > 100000:
            raise Unsupported('cycle over a very long iterator')
    return Iter('cycle', items=items, pos=0)


def _by_cmp(I, a, pick_max):
    import functools
    it = as_iter(I, a[0])
    best = None
    while True:
        v = it_next(I, it)
        if v is None:
            break
        if best is None:
            best = v
            continue
        r = I.call_closure(a[1], [Ref(Slot([best], 0)), Ref(Slot([v], 0))])
        # max_by returns the last maximum, min_by the first minimum
        if pick_max and r.variant != 'Greater':
            best = v
        if not pick_max and r.variant == 'Greater':
            best = v
    return NONE() if best is None else some(best)


ITER_METHODS['max_by'] = lambda I, a: _by_cmp(I, a, True)
ITER_METHODS['min_by'] = lambda I, a: _by_cmp(I, a, False)


@model('<std::string::String as std::fmt::Write>::write_fmt')
def _(I, a):
    deref(a[0]).buf.extend(render_args(I, a[1]))
    return ok(Agg())


@model('<std::string::String as std::fmt::Write>::write_str')
def _(I, a):
    deref(a[0]).buf.extend(as_bytes(a[1]))
    return ok(Agg())


@model('<std::string::String as std::fmt::Write>::write_char')
def _(I, a):
    deref(a[0]).buf.extend(encode_char(a[1]))
    return ok(Agg())


@model('std::char::methods::<impl char>::from_u32', 'core::char::methods::<impl char>::from_u32', 'std::char::from_u32')
def _(I, a):
    v = deref(a[0])
    if is_sym(v):
        raise Unsupported('char::from_u32 of a symbolic value')
    return some(v) if (0 <= v < 0xD800 or 0xE000 <= v <= 0x10FFFF) else NONE()


def _ascii_graphic(I, a):
    c = deref(a[0])
    return z3.And(z3.UGE(c, 0x21), z3.ULE(c, 0x7e)) if is_sym(c) else 0x21 <= c <= 0x7e


for _p in ('core::num::<impl u8>::is_ascii_graphic', 'core::char::methods::<impl char>::is_ascii_graphic'):
    EXACT[_p] = _ascii_graphic


@model('core::char::methods::<impl char>::to_lowercase', 'core::char::methods::<impl char>::to_uppercase')
def _(I, a):
    c = deref(a[0])
    if is_sym(c) or c > 127:
        raise Unsupported('Unicode case mapping of a char')
    r = ord(chr(c).lower()) if 'lower' in I.cur_func else ord(chr(c).upper())
    return Iter('into_iter', lst=[r], pos=0, end=1)


@model('core::str::<impl str>::trim_ascii', 'core::str::<impl str>::trim_ascii_start', 'core::str::<impl str>::trim_ascii_end')
def _(I, a):
    s = as_str(a[0])
    st, en = s.start, s.end
    ws = (9, 10, 12, 13, 32)
    if not I.cur_func.endswith('trim_ascii_end'):
        while st < en and I.branch(b_or(b_eq(s.buf[st], v) for v in ws)):
            st += 1
    if not I.cur_func.endswith('trim_ascii_start'):
        while en > st and I.branch(b_or(b_eq(s.buf[en - 1], v) for v in ws)):
            en -= 1
    return StrRef(s.buf, st, en)


@model('std::vec::from_elem')
def _(I, a):
    n = a[1]
    if is_sym(n):
        raise Unsupported('vec![x; n] with symbolic n')
    return VecObj([clone_val(a[0]) for _ in range(n)])


@model('std::vec::Vec::resize')
def _(I, a):
    v = deref(a[0])
    n = a[1]
    if is_sym(n):
        raise Unsupported('Vec::resize symbolic')
    if n <= len(v.items):
        del v.items[n:]
    else:
        v.items.extend(clone_val(a[2]) for _ in range(n - len(v.items)))
    return Agg()


@model('core::slice::<impl [T]>::chunks_exact')
def _(I, a):
    lst, st, en = as_list(a[0])
    k = a[1]
    if k == 0:
        raise RustPanic('chunk size must be non-zero')
    out = [SliceRef(lst, i, i + k) for i in range(st, en - k + 1, k)]
    return Iter('into_iter', lst=out, pos=0, end=len(out))


@model('core::slice::<impl [T]>::split')
def _(I, a):
    lst, st, en = as_list(a[0])
    out, cur = [], st
    for i in range(st, en):
        if I.branch(I.call_closure(a[1], [Ref(Slot(lst, i))])):
            out.append(SliceRef(lst, cur, i))
            cur = i + 1
    out.append(SliceRef(lst, cur, en))
    return Iter('into_iter', lst=out, pos=0, end=len(out))


@model('<str as std::cmp::PartialOrd>::partial_cmp')
def _(I, a):
    return some(ord_cmp(I, a))


@intmethod('rotate_left', 'rotate_right')
def _(I, ty, a):
    x, n = deref(a[0]), deref(a[1])
    if is_sym(x) or is_sym(n) or ty in SIGNED:
        raise Unsupported('rotate on symbolic / signed values')
    w = INT_W[ty]
    n %= w
    if 'rotate_right' in I.cur_func:
        n = (w - n) % w
    return ((x << n) | (x >> (w - n))) & ((1 << w) - 1) if n else x


_entry_or_default_prev = EXACT['std::collections::hash_map::Entry::or_default']


def _entry_or_default(I, a):
    e = a[0]
    if e.cell is None:
        m = re.search(r'Entry::<(.*)>::or_default$', I.cur_func)
        if not m:
            raise Unsupported('Entry::or_default on a vacant entry (value type unknown here)')
        parts, depth, cur = [], 0, ''
        for ch in m.group(1):
            depth += ch in '<([' 
            depth -= ch in '>)]'
            if ch == ',' and depth == 0:
                parts.append(cur.strip())
                cur = ''
            else:
                cur += ch
        parts.append(cur.strip())
        e.cell = [e.key, default_val(I, parts[-1])]
        e.map.items.append(e.cell)
    return Ref(Slot(e.cell, 1))


EXACT['std::collections::hash_map::Entry::or_default'] = _entry_or_default


@model('<u8 as std::convert::TryFrom>::try_from', '<u16 as std::convert::TryFrom>::try_from', '<u32 as std::convert::TryFrom>::try_from', '<u64 as std::convert::TryFrom>::try_from',
       '<usize as std::convert::TryFrom>::try_from', '<i8 as std::convert::TryFrom>::try_from', '<i16 as std::convert::TryFrom>::try_from', '<i32 as std::convert::TryFrom>::try_from',
       '<i64 as std::convert::TryFrom>::try_from', '<isize as std::convert::TryFrom>::try_from')
def _(I, a):
    v = deref(a[0])
    ty = re.match(r'<(\w+) as', I.cur_func).group(1)
    if is_sym(v):
        raise Unsupported('TryFrom on a symbolic integer')
    lo, hi = _rng(ty)
    return ok(v) if lo <= v <= hi else err(Opaque('TryFromIntError'))


@model('core::char::methods::<impl char>::is_ascii_hexdigit', 'core::num::<impl u8>::is_ascii_hexdigit')
def _(I, a):
    c = deref(a[0])
    if is_sym(c):
        return z3.Or(z3.And(z3.UGE(c, 48), z3.ULE(c, 57)), z3.And(z3.UGE(c, 65), z3.ULE(c, 70)), z3.And(z3.UGE(c, 97), z3.ULE(c, 102)))
    return 48 <= c <= 57 or 65 <= c <= 70 or 97 <= c <= 102


@model('core::slice::<impl [T]>::rchunks')
def _(I, a):
    lst, st, en = as_list(a[0])
    k = a[1]
    if k == 0:
        raise RustPanic('chunk size must be non-zero')
    out, e = [], en
    while e > st:
        out.append(SliceRef(lst, max(st, e - k), e))
        e -= k
    return Iter('into_iter', lst=out, pos=0, end=len(out))


@model('core::slice::<impl [T]>::rotate_left', 'core::slice::<impl [T]>::rotate_right')
def _(I, a):
    lst, st, en = as_list(a[0])
    k = a[1]
    n = en - st
    if k > n:
        raise RustPanic('assertion failed: mid <= self.len()')
    if I.cur_func.endswith('rotate_right'):
        k = n - k
    lst[st:en] = lst[st + k:en] + lst[st:st + k]
    return Agg()


@model('std::vec::Vec::splice')
def _(I, a):
    v = deref(a[0])
    lo, hi = range_bounds(a[1], len(v.items))
    if lo > hi or hi > len(v.items):
        raise RustPanic('Vec::splice: range out of bounds')
    it = as_iter(I, a[2])
    new = []
    while True:
        x = it_next(I, it)
        if x is None:
            break
        new.append(x)
    removed = v.items[lo:hi]
    v.items[lo:hi] = new
    return Iter('into_iter', lst=removed, pos=0, end=len(removed))


def _iter_cmp(I, a):
    x, y = as_iter(I, a[0]), as_iter(I, a[1])
    while True:
        p, q = it_next(I, x), it_next(I, y)
        if p is None or q is None:
            return Enum('Ordering', 'Equal' if p is None and q is None else ('Less' if p is None else 'Greater'), [])
        kp, kq = _sort_key_concrete(p, I), _sort_key_concrete(q, I)
        if kp != kq:
            return Enum('Ordering', 'Less' if kp < kq else 'Greater', [])


ITER_METHODS['cmp'] = _iter_cmp
ITER_METHODS['lt'] = lambda I, a: _iter_cmp(I, a).variant == 'Less'
ITER_METHODS['le'] = lambda I, a: _iter_cmp(I, a).variant != 'Greater'
ITER_METHODS['gt'] = lambda I, a: _iter_cmp(I, a).variant == 'Greater'
ITER_METHODS['ge'] = lambda I, a: _iter_cmp(I, a).variant != 'Less'


# VecDeque as a vector (front = index 0); BTreeMap / BTreeSet as association lists whose iteration sorts concrete keys
@model('std::collections::VecDeque::new', 'std::collections::VecDeque::with_capacity')
def _(I, a):
    return VecObj()


EXACT['std::collections::VecDeque::push_back'] = EXACT['std::vec::Vec::push']
EXACT['std::collections::VecDeque::len'] = lambda I, a: len(deref(a[0]).items)
EXACT['std::collections::VecDeque::is_empty'] = lambda I, a: not deref(a[0]).items


@model('std::collections::VecDeque::push_front')
def _(I, a):
    deref(a[0]).items.insert(0, a[1])
    return Agg()


@model('std::collections::VecDeque::pop_front')
def _(I, a):
    v = deref(a[0])
    return some(v.items.pop(0)) if v.items else NONE()


@model('std::collections::VecDeque::pop_back')
def _(I, a):
    v = deref(a[0])
    return some(v.items.pop()) if v.items else NONE()


@model('std::collections::VecDeque::front', 'std::collections::VecDeque::front_mut')
def _(I, a):
    v = deref(a[0])
    return some(Ref(Slot(v.items, 0))) if v.items else NONE()


@model('std::collections::VecDeque::back', 'std::collections::VecDeque::back_mut')
def _(I, a):
    v = deref(a[0])
    return some(Ref(Slot(v.items, len(v.items) - 1))) if v.items else NONE()


@model('std::collections::VecDeque::iter')
def _(I, a):
    v = deref(a[0])
    return Iter('slice_iter', lst=v.items, pos=0, end=len(v.items))


# BTreeMap = association list (MapObj) whose iteration sorts the (concrete) keys; BTreeSet = SetObj with the same rule
@model('std::collections::BTreeMap::new')
def _(I, a):
    m = MapObj()
    m.sorted = True
    return m


@model('std::collections::BTreeSet::new')
def _(I, a):
    so = SetObj([])
    so.sorted = True
    return so


for _n in ('insert', 'get', 'get_mut', 'contains_key', 'remove', 'len', 'is_empty', 'entry'):
    EXACT['std::collections::BTreeMap::' + _n] = EXACT['std::collections::HashMap::' + _n]
for _n in ('or_insert', 'or_insert_with', 'or_default', 'and_modify'):
    EXACT['std::collections::btree_map::Entry::' + _n] = EXACT['std::collections::hash_map::Entry::' + _n]
for _n in ('contains', 'is_empty', 'len', 'iter'):
    EXACT['std::collections::BTreeSet::' + _n] = EXACT['std::collections::HashSet::' + _n]


@model('std::collections::BTreeSet::insert')
def _(I, a):
    s_ = deref(a[0])
    for kk in s_.items:
        if I.branch(val_eq(I, kk, a[1])):
            return False
    s_.items.append(a[1])
    return True


@model('std::collections::BTreeMap::iter', 'std::collections::BTreeMap::into_iter', 'std::collections::BTreeMap::keys', 'std::collections::BTreeMap::values')
def _(I, a):
    m = deref(a[0])
    ents = sorted(m.items, key=lambda e: _sort_key_concrete(e[0], I))
    if I.cur_func.endswith('keys'):
        lst = [Ref(Slot(e, 0)) for e in ents]
    elif I.cur_func.endswith('values'):
        lst = [Ref(Slot(e, 1)) for e in ents]
    elif I.cur_func.endswith('into_iter') and not isinstance(a[0], Ref):
        lst = [Agg([e[0], e[1]]) for e in ents]
    else:
        lst = [Agg([Ref(Slot(e, 0)), Ref(Slot(e, 1))]) for e in ents]
    return Iter('into_iter', lst=lst, pos=0, end=len(lst))


@model('std::vec::Vec::dedup_by_key')
def _(I, a):
    v = deref(a[0])
    out, keys = [], []
    for x in v.items:
        cell = [x]
        k = I.call_closure(a[1], [Ref(Slot(cell, 0))])
        if out and I.branch(val_eq(I, keys[-1], k)):
            continue
        out.append(cell[0])
        keys.append(k)
    v.items[:] = out
    return Agg()


@model('core::char::methods::<impl char>::eq_ignore_ascii_case', 'core::num::<impl u8>::eq_ignore_ascii_case')
def _(I, a):
    def low(c):
        if is_sym(c):
            return z3.If(z3.And(z3.UGE(c, 65), z3.ULE(c, 90)), c + 32, c)
        return c + 32 if 65 <= c <= 90 else c
    return b_eq(low(deref(a[0])), low(deref(a[1])))


@model('std::mem::size_of', 'core::mem::size_of')
def _(I, a):
    m = re.search(r'size_of::<(.*)>$', I.cur_func)
    ty = m.group(1) if m else ''
    if ty in INT_W:
        return INT_W[ty] // 8
    am = re.match(r'\[(\w+); (\d+)\]$', ty)
    if am and am.group(1) in INT_W:
        return INT_W[am.group(1)] // 8 * int(am.group(2))
    if ty == 'bool':
        return 1
    raise Unsupported('size_of ' + ty)


@model('core::slice::<impl [T]>::chunk_by', 'core::slice::<impl [T]>::chunk_by_mut')
def _(I, a):
    lst, st, en = as_list(a[0])
    out, cur = [], st
    for i in range(st + 1, en):
        if not I.branch(I.call_closure(a[1], [Ref(Slot(lst, i - 1)), Ref(Slot(lst, i))])):
            out.append(SliceRef(lst, cur, i))
            cur = i
    if en > st:
        out.append(SliceRef(lst, cur, en))
    return Iter('into_iter', lst=out, pos=0, end=len(out))
