"""Reference models written from the property statements only (never from chiritori's code).
All functions work on byte lists whose elements are ints or z3 8-bit terms; decisions go through ctx.branch."""
import z3
from engine import is_sym
from models import b_eq, b_and, b_or, b_not, bytes_eq
from harness import ult, uge, isin


def is_cont_expr(b):
    """UTF-8 continuation byte?"""
    if is_sym(b):
        return z3.And(z3.UGE(b, 0x80), z3.ULT(b, 0xC0))
    return 0x80 <= b < 0xC0


def count_true(conds):
    """number of true conditions: int, or z3 Int term when some are symbolic"""
    k = 0
    sym = []
    for c in conds:
        if c is True:
            k += 1
        elif c is False:
            pass
        else:
            sym.append(z3.If(c, 1, 0))
    if not sym:
        return k
    return z3.Sum(sym) + k


def eq_count(cnt, k):
    if isinstance(cnt, int):
        return cnt == k
    return cnt == k


def occurs_at(ctx, src, i, pat):
    """does pat occur at src[i:]?  (decided: forks when symbolic)"""
    if i + len(pat) > len(src):
        return False
    return ctx.branch(bytes_eq(src[i:i + len(pat)], pat))


def char_width(ctx, src, i):
    """width of the UTF-8 char starting at i (src valid UTF-8)"""
    b = src[i]
    if ctx.branch(ult(b, 0x80)):
        return 1
    if ctx.branch(ult(b, 0xE0)):
        return 2
    if ctx.branch(ult(b, 0xF0)):
        return 3
    return 4


def scan_tags(ctx, src, ds, de):
    """C08 reference: leftmost start delimiter, >= 1 body character, first end delimiter beginning after that
    character; continue behind the span.  Returns list of (kind, start, end) covering src."""
    n = len(src)
    spans = []
    text_from = 0
    i = 0
    while i < n:
        if occurs_at(ctx, src, i, ds):
            body = i + len(ds)
            if body < n:
                j = body + char_width(ctx, src, body)  # end delimiter must begin after the first body character
                found = None
                while j + len(de) <= n:
                    if occurs_at(ctx, src, j, de):
                        found = j
                        break
                    j += 1
                if found is not None:
                    end = found + len(de)
                    if i > text_from:
                        spans.append(('T', text_from, i))
                    spans.append(('E', i, end))
                    text_from = end
                    i = end
                    continue
        i += 1
    if n > text_from:
        spans.append(('T', text_from, n))
    return spans
