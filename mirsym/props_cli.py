"""C20: the CLI is a faithful wrapper (I/O routing, config file, defaults, TZ independence)."""
import random
import z3
from engine import is_sym, PathAbort
from models import b_eq, b_and, b_or, b_not, bytes_eq
from harness import harness
from impl import ImplPanic, default_cfg
from templates import *
from props_front import cover_if
from props_pipe import H, O, C, expect_exact

DEFAULTS = {'delimiter-start': '<!-- <', 'delimiter-end': '> -->', 'time-limited-tag-name': 'time-limited', 'time-limited-time-offset': '+00:00',
            'removal-marker-tag-name': 'removal-marker'}
TIMES = {'2001-01-01T03:00:00Z': 978318000, '2000-12-31T20:00:00Z': 978292800, '2010-01-01T05:30:00+09:00': 1262291400, '2024-01-01T00:00:00Z': 1704067200, '2005-06-01T09:00:00+09:00': 1117584000, '1999-12-31T23:59:59-08:00': 946713599,
         # a sub-second part: three quarters of a second before the `to` of the third element (2010-01-01 00:00:00 at +00:00)
         # spellings only chrono's relaxed parser accepts (colon-less zone, blank before the zone, UTC)
         '2005-06-01T09:00:00+0900': 1117584000, '2005-06-01T09:00:00 +09:00': 1117584000, '2005-06-01T00:00:00 UTC': 1117584000,
         '2009-12-31T23:59:59.750Z': (1262303999, 750000000), '2010-01-01T08:59:59.5+09:00': (1262303999, 500000000)}
PRINTABLE = tuple(range(0x21, 0x7f))


def doc_template(p):
    """a document in the job's spelling with a few symbolic bytes; the marker name may be a symbolic string"""
    tl = p['opts'].get('time-limited-tag-name', [DEFAULTS['time-limited-tag-name']])[0]
    rm = p['opts'].get('removal-marker-tag-name', [DEFAULTS['removal-marker-tag-name']])[0]
    big = []
    if p.get('big'):   # ~9 KB of three-byte characters, placed so that byte offsets 4096 and 8192 fall inside a character
        big = ["あいうえおかきくけこさしすせそたちつてとなにぬねのはひふへほ\n" * (100 * int(p['big']))]
    tail = [p['tail']] if p.get('tail') else []
    return big + ["A", H(p.get('hole', 1), 'txt'), "\n", O(rm, "name='" + p.get('name1', 'x') + "'"), "\nq\n", C(rm), "\nB\n",
            O(tl, "to='2001-01-01 00:00:00'"), "t", C(tl), " ", O(rm, "name='" + p.get('name2', 'y') + "'"), "u", C(rm), "\n",
            O(tl, "to='2010-01-01 00:00:00'"), "\nv\n", C(tl), "\nC", H(p.get('hole', 1), 'nb'), "\n"] + tail


@harness('c20_cli', covers=['input-from-file', 'input-from-stdin', 'output-to-file', 'output-to-stdout', 'output-is-input-file', 'targets-from-file',
                            'targets-from-flags', 'no-target-option', 'list-mode', 'list-json-mode', 'clean-mode', 'something-removed'])
def c20_cli(ctx, p):
    opts = {k: ([list(x.encode()) for x in v] if v is not True else True) for k, v in p['opts'].items()}
    ds = list(p['opts'].get('delimiter-start', [DEFAULTS['delimiter-start']])[0].encode())
    de = list(p['opts'].get('delimiter-end', [DEFAULTS['delimiter-end']])[0].encode())
    # the marker name in the document may be symbolic (any printable string of that length): `name1_len`
    tpl = doc_template(p)
    doc, parts = render(ctx, tpl, ds, de)
    if p.get('name1_len'):
        nm = ctx.bytes('name1', p['name1_len'], only=PRINTABLE)
        for b in nm:
            ctx.constrain(b_not(b_or(b_eq(b, v) for v in (39, 34, 60, 62))))
        # substitute the symbolic name for the placeholder value of the first marker
        key = list(("name='" + p.get('name1', 'x') + "'").encode())
        for i in range(len(doc) - len(key)):
            if doc[i:i + len(key)] == key:
                doc = doc[:i + 6] + nm + doc[i + len(key) - 1:]
                break
    for b in doc:
        if is_sym(b):   # JSON text is compared byte for byte: keep the free bytes clear of characters that JSON escapes
            ctx.constrain(z3.And(z3.UGE(b, 0x20), b != 34, b != 92, b != 0x7f))
    files = {k: list(v.encode()) for k, v in p.get('files', {}).items()}
    stdin = None
    if 'filename' in opts and p['opts']['filename'][0] == '/dev/stdin':
        stdin = list(doc)     # a path that is not a regular file: its content is whatever standard input delivers
        ctx.cover('input-from-file')
    elif 'filename' in opts:
        files[p['opts']['filename'][0]] = list(doc)
        ctx.cover('input-from-file')
    else:
        stdin = list(doc)
        ctx.cover('input-from-stdin')
    # symbolic target names given by flag
    flag_targets = []
    if p.get('target_flag_lens'):
        opts['removal-marker-target-name'] = []
        for i, k in enumerate(p['target_flag_lens']):
            t = ctx.bytes(f'tflag{i}', k, only=PRINTABLE)
            ctx.constrain(b_not(b_eq(t[0], 45)))  # not starting with '-': clap would read it as an option
            opts['removal-marker-target-name'].append(t)
    now_env = 1400000000
    job = dict(opts=opts, files=files, stdin=stdin, tty=False, now=now_env, tz_list=p.get('tz_list', ['UTC']))
    if ctx.symbolic:
        ctx.I.json_text = True  # C20 compares the JSON *text*: the serde stub renders it
    res = ctx.impl.run_cli(job)
    # ---- the configuration the options stand for (C20 statement / --help)
    targets = []
    if 'removal-marker-target-config' in opts:
        ctx.cover('targets-from-file')
        cfgfile = p['files'][p['opts']['removal-marker-target-config'][0]]
        lines_ = cfgfile.split('\n')     # one name per line: BufRead::lines() - the piece behind the final line break is not a line, a CR before a line break is dropped
        if lines_ and lines_[-1] == '':
            lines_.pop()
        targets += [list((l[:-1] if l.endswith('\r') else l).encode()) for l in lines_]
    if 'removal-marker-target-name' in opts:
        ctx.cover('targets-from-flags')
        targets += opts['removal-marker-target-name']
    if 'removal-marker-target-config' not in opts and 'removal-marker-target-name' not in opts:
        ctx.cover('no-target-option')
    cur = p['opts'].get('time-limited-current', [''])[0]
    now = TIMES.get(cur, now_env)
    now, now_ns = now if isinstance(now, tuple) else (now, 0)
    if cur not in TIMES and not ctx.symbolic:
        raise PathAbort()  # without an explicit current time the real binary uses the wall clock: nothing to compare natively
    g = lambda k: list(p['opts'].get(k, [DEFAULTS[k]])[0].encode())
    cfg = default_cfg(tl_tag=g('time-limited-tag-name'), tl_offset=g('time-limited-time-offset'), now=now, now_ns=now_ns, rm_tag=g('removal-marker-tag-name'), targets=targets)
    if 'list' in opts or 'list-all' in opts:
        ctx.cover('list-mode')
        fmt = 'json' if 'list-json' in opts else 'pretty'
        if fmt == 'json':
            ctx.cover('list-json-mode')
        exp = ctx.impl.list(doc, ds, de, cfg, all='list' not in opts, format=fmt, raw=True)['out']
    else:
        ctx.cover('clean-mode')
        exp = ctx.impl.clean(doc, ds, de, cfg)
        if len(exp) < len(doc):
            ctx.cover('something-removed')
    ctx.check(res['exit'] == 0, f"the command exits with status {res['exit']} ({res.get('panic')})", 'cli-fails')
    ctx.check('tz_differs' not in res, f"the result depends on the process time zone (differs under TZ={res.get('tz_differs')})", 'tz-dependent')
    if 'output' in opts:
        ctx.cover('output-to-file')
        outp = p['opts']['output'][0]
        if 'filename' in opts and outp == p['opts']['filename'][0]:
            ctx.cover('output-is-input-file')
        produced = res['files'].get(outp)
        ctx.check(res['stdout'] == [], 'with --output nothing may be printed', 'output-routing')
        ctx.check(produced is not None, '--output file was not written', 'output-routing')
        for k, v in files.items():
            if k != outp:
                ctx.check(k in res['files'] and len(res['files'][k]) == len(v) and b_and(same(a, b) for a, b in zip(res['files'][k], v)),
                          f'file {k} was modified', 'output-routing')
    else:
        ctx.cover('output-to-stdout')
        produced = res['stdout']
        for k, v in files.items():
            ctx.check(k in res['files'] and len(res['files'][k]) == len(v) and b_and(same(a, b) for a, b in zip(res['files'][k], v)),
                      f'file {k} was modified although no --output was given', 'output-routing')
    role = (lambda: 'option-default-becomes-a-target' if ('removal-marker-target-config' not in opts and 'removal-marker-target-name' not in opts) else 'cli-differs-from-library')
    ctx.check(len(produced) == len(exp) and b_and(same(a, b) for a, b in zip(produced, exp)),
              'the output of the command differs from the library result for the corresponding configuration', role)


def c20_jobs(tier, seed):
    jobs = []

    def J(label, **p):
        jobs.append(dict(harness='c20_cli', label=label, params=p))
    T = '2024-01-01T00:00:00Z'
    tzs = ['UTC', 'Asia/Tokyo', 'America/Los_Angeles', None]
    base = {'time-limited-current': [T]}
    modes = {'clean': {}, 'list': {'list': True}, 'list-all': {'list-all': True}, 'list-json': {'list': True, 'list-json': True},
             'list-all-json': {'list-all': True, 'list-json': True}}
    # I/O routing x modes
    for mname, mo in modes.items():
        for inp in ('file', 'stdin'):
            for outp in ('stdout', 'file', 'same'):
                if outp == 'same' and inp != 'file':
                    continue
                o = dict(base, **mo)
                o['removal-marker-target-name'] = ['x']
                if inp == 'file':
                    o['filename'] = ['in.txt']
                if outp == 'file':
                    o['output'] = ['out.txt']
                if outp == 'same':
                    o['output'] = ['in.txt']
                J(f'{mname} in={inp} out={outp}', opts=o, tz_list=tzs if mname in ('clean', 'list-all-json') else ['UTC'])
    # targets: none / flags / file / both; the document's first marker name symbolic (6 printable bytes: any name, incl. strings shown by --help)
    J('no target option, symbolic marker name (6 bytes)', opts=dict(base, filename=['in.txt']), name1_len=6)
    J('no target option, symbolic marker name (1 byte)', opts=dict(base), name1_len=1)
    J('no target option, list-all', opts=dict(base, **{'list-all': True, 'list-json': True}), name1_len=6)
    J('targets by two symbolic flags', opts=dict(base, filename=['in.txt']), target_flag_lens=[1, 1], name1_len=1)
    J('targets from config file', opts=dict(base, **{'removal-marker-target-config': ['t.cfg']}), files={'t.cfg': 'x\ny\n'})
    J('targets from config file without final newline', opts=dict(base, **{'removal-marker-target-config': ['t.cfg']}), files={'t.cfg': 'zz\ny'})
    J('targets from config file and flag', opts=dict(base, **{'removal-marker-target-config': ['t.cfg'], 'removal-marker-target-name': ['x']}), files={'t.cfg': 'y\n'})
    J('config file equals repeated flags (flags side)', opts=dict(base, **{'removal-marker-target-name': ['x', 'y']}))
    J('empty string as target name by flag', opts=dict(base, **{'removal-marker-target-name': ['', 'y']}), name1='')
    J('config file with final newline, marker with empty name', opts=dict(base, **{'removal-marker-target-config': ['t.cfg']}), files={'t.cfg': 'y\n'}, name1='')
    J('config file with an empty line in the middle, marker with empty name', opts=dict(base, **{'removal-marker-target-config': ['t.cfg']}), files={'t.cfg': 'y\n\nz\n'}, name1='')
    J('config file line with blanks around the name', opts=dict(base, **{'removal-marker-target-config': ['t.cfg']}), files={'t.cfg': ' y \n\tx\n'}, name1=' y ', name2='x')
    J('config file line with blanks around the name, marker without them', opts=dict(base, **{'removal-marker-target-config': ['t.cfg']}), files={'t.cfg': ' y \n'}, name1='y')
    J('empty config file, marker with empty name', opts=dict(base, **{'removal-marker-target-config': ['t.cfg']}), files={'t.cfg': ''}, name1='')
    J('large multi-byte document from stdin', opts=dict(base, **{'removal-marker-target-name': ['x']}), big=1)
    J('large multi-byte document from a file', opts=dict(base, **{'removal-marker-target-name': ['x'], 'filename': ['in.txt']}), big=1)
    J('input path is not a regular file (/dev/stdin)', opts=dict(base, **{'removal-marker-target-name': ['x'], 'filename': ['/dev/stdin']}))
    # the last line is long and has no line break behind it (line-buffered writers treat such a tail differently)
    J('long unterminated last line to stdout', opts=dict(base, **{'removal-marker-target-name': ['x']}), tail='z' * 1500)
    J('long unterminated last line, file to file', opts=dict(base, **{'removal-marker-target-name': ['x'], 'filename': ['in.txt'], 'output': ['out.txt']}), tail='é' * 1200)
    J('large multi-byte document from stdin, list-json', opts=dict(base, **{'removal-marker-target-name': ['x'], 'list': True, 'list-json': True}), big=1)
    J('empty config file', opts=dict(base, **{'removal-marker-target-config': ['t.cfg']}), files={'t.cfg': ''}, name1_len=2)
    # spelling options and times
    J('custom delimiters and tag names', opts=dict(base, **{'delimiter-start': ['/* <'], 'delimiter-end': ['> */'], 'time-limited-tag-name': ['tl'],
                                                             'removal-marker-tag-name': ['rm'], 'removal-marker-target-name': ['y']}), tz_list=tzs)
    # other spellings given on the command line reach the library unchanged (backslashes, regex-special characters, identical delimiters, non-ASCII names)
    for ds_, de_, tl_, rm_ in (('\\(', '\\)', 'time-limited', 'removal-marker'), ('\\[', '\\]', 'tl', 'rm'), ('%%', '%%', 'until', 'flag'), ('「', '」', '期限', '削除'),
                               ('(*', '*)', 't-é', 'm.*'), ('\\\\', '\\\\', 't', 'm'), ('$(', ')', 'a|b', '[m]'), ('<!--\\t<', '>-->', 't', 'm')):
        for mname, mode in (('clean', {}), ('list-all-json', {'list-all': True, 'list-json': True})):
            J(f'spelling: delimiters {ds_!r} {de_!r} names {tl_!r} {rm_!r} mode={mname}',
              opts=dict(base, **{'delimiter-start': [ds_], 'delimiter-end': [de_], 'time-limited-tag-name': [tl_], 'removal-marker-tag-name': [rm_],
                                  'removal-marker-target-name': ['y']}, **mode))
    if True:   # beyond 64 KiB, multi-byte delimiters and text (block-wise readers / decoders)
        J('spelling: 73 KB multi-byte document, delimiters 「 」, from a file', opts=dict(base, **{'delimiter-start': ['「'], 'delimiter-end': ['」'], 'removal-marker-target-name': ['x'], 'filename': ['in.txt']}), big=8)
        J('spelling: 73 KB multi-byte document, delimiters 「 」, from stdin', opts=dict(base, **{'delimiter-start': ['「'], 'delimiter-end': ['」'], 'removal-marker-target-name': ['x']}), big=8)
    # one delimiter custom, the other one the documented default given explicitly (an option value equal to a default is still that value)
    for ds_, de_ in (('/* <', '> -->'), ('<!-- <', '> */'), ('{{', '> -->'), ('<!-- <', '}}')):
        J(f'spelling: delimiters {ds_!r} {de_!r} (one of them equals its default) mode=clean',
          opts=dict(base, **{'delimiter-start': [ds_], 'delimiter-end': [de_], 'removal-marker-target-name': ['y']}))
    for k_, v_ in (('time-limited-tag-name', 'time-limited'), ('removal-marker-tag-name', 'removal-marker'), ('time-limited-time-offset', '+00:00')):
        J(f'option {k_} given explicitly with its default value', opts=dict(base, **{k_: [v_], 'removal-marker-target-name': ['y']}))
    for ds_, de_, tl_, rm_ in (('→ ', ' ←', 'TL', 'Removal-Marker'), (' [', '] ', 'Until', 'FLAG')):   # blanks at the ends of delimiters, upper case in tag names
        J(f'spelling: delimiters {ds_!r} {de_!r} names {tl_!r} {rm_!r} mode=clean',
          opts=dict(base, **{'delimiter-start': [ds_], 'delimiter-end': [de_], 'time-limited-tag-name': [tl_], 'removal-marker-tag-name': [rm_], 'removal-marker-target-name': ['y']}))
    for t in TIMES:   # the default offset (+00:00) at instants a few hours from a deadline
        J(f'current={t} default offset', opts={'time-limited-current': [t], 'filename': ['in.txt']})
    for t in TIMES:
        for off in ('+00:00', '+09:00', '-0800'):
            J(f'current={t} offset={off}', opts={'time-limited-current': [t], 'time-limited-time-offset': [off], 'filename': ['in.txt']}, tz_list=tzs)
    J('no explicit current time (clock stub)', opts={'removal-marker-target-name': ['x'], 'filename': ['in.txt']})
    J('unparseable current time falls back to the clock', opts={'time-limited-current': [''], 'removal-marker-target-name': ['y']})
    return jobs
