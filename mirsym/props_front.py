"""Harnesses for the front end: C07 (lossless partition), C08 (leftmost-shortest recognition),
C09 (tag grammar), C10 (pairing), and the front-end part of C01 (totality)."""
import z3
from engine import is_sym
from models import b_eq, b_and, b_or, b_not, bytes_eq
from harness import harness, ult, uge, isin, show
from impl import ImplPanic
from oracles import *

# delimiter pool P of DESIGN.md §6
POOL = [('<', '>'), ('<!-- <', '> -->'), ('/* <', '> */'), ('// --', '-- //'), ('aab', 'bba'), ('<<', '>>'),
        ('|', '|'), ('«', '»'), ('→ ', ' ←'), ('((', '))'), ('.*[', ']+?'), ('<', '/>')]


def delims(p, ctx):
    """delimiters: concrete from params, or symbolic valid-UTF-8 strings of the given byte lengths"""
    if 'ds' in p:
        return list(p['ds'].encode()), list(p['de'].encode())
    ds = ctx.bytes('ds', p['ds_len'])
    de = ctx.bytes('de', p['de_len'])
    return ds, de


def check_partition(ctx, src, ds, de, toks):
    n = len(src)
    pos = 0
    cpos = 0
    prev_kind = None
    for k, t in enumerate(toks):
        bs, be = t['bs'], t['be']
        ctx.check(bs == pos, f'token {k}: byte_start {bs} != end of previous token {pos}', 'not-contiguous')
        ctx.check(be > bs, f'token {k}: empty or negative span {bs}..{be}', 'empty-token')
        ctx.check(be <= n, f'token {k}: byte_end {be} beyond source length {n}', 'end-beyond-source')
        ctx.check(t['vs'] == bs and t['ve'] == be, f"token {k}: value is src[{t['vs']}..{t['ve']}] but offsets say {bs}..{be}",
                  'value-span-mismatch')
        if bs < n:
            ctx.check(b_not(is_cont_expr(src[bs])), f'token {k}: byte_start {bs} not on a char boundary', 'not-boundary')
        if be < n:
            ctx.check(b_not(is_cont_expr(src[be])), f'token {k}: byte_end {be} not on a char boundary', 'not-boundary')
        ctx.check(t['cs'] == cpos, f"token {k}: char start {t['cs']} != previous char end {cpos}", 'char-offsets')
        nch = count_true(b_not(is_cont_expr(b)) for b in src[bs:be])
        ctx.check(eq_count(nch, t['ce'] - t['cs']), f"token {k}: char span {t['cs']}..{t['ce']} does not count the chars of bytes {bs}..{be}",
                  'char-offsets')
        if t['kind'] == 'E':
            ctx.check(be - bs >= len(ds) and bytes_eq(src[bs:bs + len(ds)], ds), f'token {k}: tag does not begin with the start delimiter',
                      'tag-without-start-delimiter')
            ctx.check(be - bs >= len(de) and bytes_eq(src[be - len(de):be], de), f'token {k}: tag does not end with the end delimiter',
                      'tag-without-end-delimiter')
        else:
            ctx.check(prev_kind != 'T', f'tokens {k - 1},{k}: two adjacent text tokens', 'adjacent-text')
        prev_kind = t['kind']
        pos, cpos = be, t['ce']
    ctx.check(pos == n, f'tokens end at {pos}, source length is {n}', 'does-not-end-at-source-length')


def cover_if(ctx, label, cond):
    """input-side reachability witness, no fork: is pc ∧ cond satisfiable?"""
    if not ctx.symbolic:
        if cond:
            ctx.cover(label)
        return
    if cond is True:
        ctx.cover(label)
    elif cond is not False and label not in ctx.I.covers:
        if ctx.I._check(cond) is not None:
            ctx.cover(label)


@harness('c07_partition', covers=['multibyte-last-char', 'tag-present', 'four-byte-char'])
def c07_partition(ctx, p):
    n = p['n']
    ds, de = delims(p, ctx)
    src = ctx.bytes('src', n)
    if n:
        cover_if(ctx, 'multibyte-last-char', is_cont_expr(src[-1]))
        cover_if(ctx, 'four-byte-char', uge(src[0], 0xF0) if n >= 4 else False)
    toks = ctx.impl.tokenize(src, ds, de)
    if any(t['kind'] == 'E' for t in toks):
        ctx.cover('tag-present')
    check_partition(ctx, src, ds, de, toks)


def c08_role(src, ds, de, ref, got):
    """classify a recognition mismatch on concrete values (known-findings are suppressed by role, never by property)"""
    def role():
        rt = [x for x in ref if x[0] == 'E']
        gt = [x for x in got if x[0] == 'E']
        missing = [x for x in rt if x not in gt]
        if not missing:
            return 'spurious-tag' if [x for x in gt if x not in rt] else 'text-spans-differ'
        _, s, e = missing[0]
        gstarts = {x[1] for x in gt}
        if s not in gstarts:
            # the reference tag starts at s, the tokenizer has text there: is s reached inside a partial match of
            # the start delimiter that began before s?
            for p in range(max(0, s - len(ds) + 1), s):
                if src[p:s] == ds[:s - p] and s - p < len(ds):
                    return 'tag-start-missed-inside-partial-start-delimiter-match'
        j = e - len(de)
        for p in range(max(s + len(ds), j - len(de) + 1), j):
            if src[p:j] == de[:j - p] and j - p < len(de):
                return 'tag-end-missed-inside-partial-end-delimiter-match'
        return 'tag-missed'
    return role


@harness('c08_recognition', covers=['tag-present', 'two-tags'])
def c08_recognition(ctx, p):
    n = p['n']
    ds, de = delims(p, ctx)
    src = ctx.bytes('src', n)
    ref = scan_tags(ctx, src, ds, de)
    ntags = sum(1 for s in ref if s[0] == 'E')
    if ntags:
        ctx.cover('tag-present')
    if ntags >= 2:
        ctx.cover('two-tags')
    toks = ctx.impl.tokenize(src, ds, de)
    got = [(t['kind'], t['bs'], t['be']) for t in toks]
    ctx.check(got == ref, f'token spans {got} differ from the left-to-right scan {ref}', c08_role(src, ds, de, ref, got))


@harness('c08_template', covers=['tag-present', 'tag-after-partial-start', 'partial-end-inside-body'])
def c08_template(ctx, p):
    """hole ds hole de hole : holes may contain delimiter characters"""
    ds, de = list(p['ds'].encode()), list(p['de'].encode())
    a = ctx.bytes('a', p['a'])
    b = ctx.bytes('b', p['b'])
    c = ctx.bytes('c', p['c'])
    src = a + ds + b + de + c
    ref = scan_tags(ctx, src, ds, de)
    if any(s[0] == 'E' for s in ref):
        ctx.cover('tag-present')
    for s in ref:
        # input-side witnesses: a tag whose first character directly follows a character that begins the start
        # delimiter; a body that contains the first character of the end delimiter before the real end delimiter
        if s[0] == 'E' and s[1] > 0:
            cover_if(ctx, 'tag-after-partial-start', b_eq(src[s[1] - 1], ds[0]))
        if s[0] == 'E' and s[2] - s[1] > len(ds) + len(de) + 1:
            cover_if(ctx, 'partial-end-inside-body', b_eq(src[s[2] - len(de) - 1], de[0]))
    toks = ctx.impl.tokenize(src, ds, de)
    got = [(t['kind'], t['bs'], t['be']) for t in toks]
    ctx.check(got == ref, f'token spans {got} differ from the left-to-right scan {ref}', c08_role(src, ds, de, ref, got))
