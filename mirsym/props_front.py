"""Harnesses for the front end: C07 (lossless partition), C08 (leftmost-shortest recognition),
C09 (tag grammar), C10 (pairing), and the front-end part of C01 (totality)."""
import z3
from engine import is_sym
from models import b_eq, b_and, b_or, b_not, bytes_eq
from harness import harness, ult, uge, isin, show
from impl import ImplPanic
from oracles import *

# delimiter pool P of DESIGN.md §6
POOL = [('<', '>'), ('<!-- <', '> -->'), ('/* <', '> */'), ('// --', '-- //'), ('aab', 'bba'), ('<<', '>>'),
        ('|', '|'), ('«', '»'), ('→ ', ' ←'), ('((', '))'), ('.*[', ']+?'), ('<', '/>'),
        ('{%', '-%}')]   # a three-character end delimiter whose proper prefixes are not runs of its first character


def delims(p, ctx):
    """delimiters: concrete from params, or symbolic valid-UTF-8 strings of the given byte lengths"""
    if 'ds' in p:
        return list(p['ds'].encode()), list(p['de'].encode())
    ds = ctx.bytes('ds', p['ds_len'])
    de = ctx.bytes('de', p['de_len'])
    return ds, de


def check_partition(ctx, src, ds, de, toks):
    n = len(src)
    pos = 0
    cpos = 0
    prev_kind = None
    for k, t in enumerate(toks):
        bs, be = t['bs'], t['be']
        ctx.check(bs == pos, f'token {k}: byte_start {bs} != end of previous token {pos}', 'not-contiguous')
        ctx.check(be > bs, f'token {k}: empty or negative span {bs}..{be}', 'empty-token')
        ctx.check(be <= n, f'token {k}: byte_end {be} beyond source length {n}', 'end-beyond-source')
        ctx.check(t['vs'] == bs and t['ve'] == be, f"token {k}: value is src[{t['vs']}..{t['ve']}] but offsets say {bs}..{be}",
                  'value-span-mismatch')
        if bs < n:
            ctx.check(b_not(is_cont_expr(src[bs])), f'token {k}: byte_start {bs} not on a char boundary', 'not-boundary')
        if be < n:
            ctx.check(b_not(is_cont_expr(src[be])), f'token {k}: byte_end {be} not on a char boundary', 'not-boundary')
        ctx.check(t['cs'] == cpos, f"token {k}: char start {t['cs']} != previous char end {cpos}", 'char-offsets')
        nch = count_true(b_not(is_cont_expr(b)) for b in src[bs:be])
        ctx.check(eq_count(nch, t['ce'] - t['cs']), f"token {k}: char span {t['cs']}..{t['ce']} does not count the chars of bytes {bs}..{be}",
                  'char-offsets')
        if t['kind'] == 'E':
            ctx.check(be - bs >= len(ds) and bytes_eq(src[bs:bs + len(ds)], ds), f'token {k}: tag does not begin with the start delimiter',
                      'tag-without-start-delimiter')
            ctx.check(be - bs >= len(de) and bytes_eq(src[be - len(de):be], de), f'token {k}: tag does not end with the end delimiter',
                      'tag-without-end-delimiter')
        else:
            ctx.check(prev_kind != 'T', f'tokens {k - 1},{k}: two adjacent text tokens', 'adjacent-text')
        prev_kind = t['kind']
        pos, cpos = be, t['ce']
    ctx.check(pos == n, f'tokens end at {pos}, source length is {n}', 'does-not-end-at-source-length')


def cover_if(ctx, label, cond):
    """input-side reachability witness, no fork: is pc ∧ cond satisfiable?"""
    if not ctx.symbolic:
        if cond:
            ctx.cover(label)
        return
    if cond is True:
        ctx.cover(label)
    elif cond is not False and label not in ctx.I.covers:
        from engine import Unsupported
        try:
            if ctx.I._check(cond) is not None:
                ctx.cover(label)
        except Unsupported:
            pass  # solver gave up on a reachability witness: the label is simply not counted on this path


@harness('c07_partition', covers=['multibyte-last-char', 'tag-present', 'four-byte-char'])
def c07_partition(ctx, p):
    n = p['n']
    ds, de = delims(p, ctx)
    src = ctx.bytes('src', n)
    if n:
        cover_if(ctx, 'multibyte-last-char', is_cont_expr(src[-1]))
        cover_if(ctx, 'four-byte-char', uge(src[0], 0xF0) if n >= 4 else False)
    toks = ctx.impl.tokenize(src, ds, de)
    if any(t['kind'] == 'E' for t in toks):
        ctx.cover('tag-present')
    check_partition(ctx, src, ds, de, toks)


def c08_role(src, ds, de, ref, got):
    """classify a recognition mismatch on concrete values (known-findings are suppressed by role, never by property)"""
    def role():
        rt = [x for x in ref if x[0] == 'E']
        gt = [x for x in got if x[0] == 'E']
        missing = [x for x in rt if x not in gt]
        if not missing:
            return 'spurious-tag' if [x for x in gt if x not in rt] else 'text-spans-differ'
        _, s, e = missing[0]
        gstarts = {x[1] for x in gt}
        if s not in gstarts:
            # the reference tag starts at s, the tokenizer has text there: is s reached inside a partial match of
            # the start delimiter that began before s?
            for p in range(max(0, s - len(ds) + 1), s):
                if src[p:s] == ds[:s - p] and s - p < len(ds):
                    return 'tag-start-missed-inside-partial-start-delimiter-match'
        j = e - len(de)
        for p in range(max(s + len(ds), j - len(de) + 1), j):
            if src[p:j] == de[:j - p] and j - p < len(de):
                return 'tag-end-missed-inside-partial-end-delimiter-match'
        return 'tag-missed'
    return role


@harness('c08_recognition', covers=['tag-present', 'two-tags'])
def c08_recognition(ctx, p):
    n = p['n']
    ds, de = delims(p, ctx)
    src = ctx.bytes('src', n)
    ref = scan_tags(ctx, src, ds, de)
    ntags = sum(1 for s in ref if s[0] == 'E')
    if ntags:
        ctx.cover('tag-present')
    if ntags >= 2:
        ctx.cover('two-tags')
    toks = ctx.impl.tokenize(src, ds, de)
    got = [(t['kind'], t['bs'], t['be']) for t in toks]
    ctx.check(got == ref, f'token spans {got} differ from the left-to-right scan {ref}', c08_role(src, ds, de, ref, got))


@harness('c08_doc', covers=['tag-present'])
def c08_doc(ctx, p):
    """concrete documents around partial / doubled / truncated delimiters, with one-byte holes between the pieces"""
    ds, de = list(p['ds'].encode()), list(p['de'].encode())
    src = []
    for k, piece in enumerate(p['pieces']):
        if isinstance(piece, int):
            src += ctx.bytes(f'g{k}', piece)
        else:
            src += list(piece.encode())
    ref = scan_tags(ctx, src, ds, de)
    if any(s_[0] == 'E' for s_ in ref):
        ctx.cover('tag-present')
    toks = ctx.impl.tokenize(src, ds, de)
    got = [(t['kind'], t['bs'], t['be']) for t in toks]
    ctx.check(got == ref, f'token spans {got} differ from the left-to-right scan {ref}', c08_role(src, ds, de, ref, got))


def c08_doc_jobs(tier):
    jobs = []
    pairs = [POOL[1], POOL[2], POOL[3], POOL[8]] if tier == 'quick' else [q for q in POOL if len(q[0]) > 1 or len(q[1]) > 1]
    for ds, de in pairs:
        docs = []
        for k in range(len(de)):   # one character of the end delimiter doubled
            docs.append(('doubled end-delimiter char %d' % k, [1, ds, 'a', de[:k + 1] + de[k] + de[k + 1:], 1, ds, '/a', de, 1]))
        for k in range(len(ds)):
            docs.append(('doubled start-delimiter char %d' % k, [1, ds[:k + 1] + ds[k] + ds[k + 1:], 'a', de, 1]))
        for k in range(1, len(de)):
            docs.append(('truncated end delimiter (%d chars) at end of input' % k, [1, ds, 'a', 1, de[:k]]))
        docs.append(('stray end delimiter before the first tag', [1, de, 1, ds, 'a', de, 1]))
        docs.append(('end delimiter directly after start delimiter', [ds, de, 1, de, 1]))
        docs.append(('start delimiter inside a tag', [1, ds, 'a', ds, 1, de, 1]))
        for lab, pieces in docs:
            jobs.append(dict(harness='c08_doc', label=f'{lab}: ds={ds!r} de={de!r}', params=dict(ds=ds, de=de, pieces=pieces)))
    return jobs


@harness('c08_template', covers=['tag-present', 'tag-after-partial-start', 'partial-end-inside-body'])
def c08_template(ctx, p):
    """hole ds hole de hole : holes may contain delimiter characters"""
    ds, de = list(p['ds'].encode()), list(p['de'].encode())
    a = ctx.bytes('a', p['a'])
    b = ctx.bytes('b', p['b'])
    c = ctx.bytes('c', p['c'])
    src = a + ds + b + de + c
    ref = scan_tags(ctx, src, ds, de)
    if any(s[0] == 'E' for s in ref):
        ctx.cover('tag-present')
    for s in ref:
        # input-side witnesses: a tag whose first character directly follows a character that begins the start
        # delimiter; a body that contains the first character of the end delimiter before the real end delimiter
        if s[0] == 'E' and s[1] > 0:
            cover_if(ctx, 'tag-after-partial-start', b_eq(src[s[1] - 1], ds[0]))
        if s[0] == 'E' and s[2] - s[1] > len(ds) + len(de) + 1:
            cover_if(ctx, 'partial-end-inside-body', b_eq(src[s[2] - len(de) - 1], de[0]))
    toks = ctx.impl.tokenize(src, ds, de)
    got = [(t['kind'], t['bs'], t['be']) for t in toks]
    ctx.check(got == ref, f'token spans {got} differ from the left-to-right scan {ref}', c08_role(src, ds, de, ref, got))


# ---------------------------------------------------------------- C09 tag grammar
NAME_EXCL = (32, 10, 9, 13, 61, 34, 39, 47)  # blank, line break, tab, CR, '=', quotes, '/'


def gen_tag(ctx, p, ds, de):
    """build a well-formed tag from the shape in p; returns (src, expected name span, expected attrs)"""
    excl_delim = tuple({ds[0], de[0]})
    src = list(ds)
    src += ctx.bytes('padl', p['pad_l'], only=(32,))
    nm = ctx.bytes('name', p['name_len'], exclude=NAME_EXCL + excl_delim)
    name_span = [len(src), len(src) + len(nm)]
    src += nm
    attrs = []
    for k, at in enumerate(p['attrs']):
        sep = ctx.bytes(f'sep{k}', at['sep_len'], only=(32, 10))
        src += sep
        an = ctx.bytes(f'an{k}', at['name_len'], exclude=NAME_EXCL + excl_delim)
        aspan = [len(src), len(src) + len(an)]
        src += an
        if at['kind'] == 'bare':
            attrs.append([aspan, None])
        else:
            src += [32] * at['eq_l'] + [61] + [32] * at['eq_r']
            q = ctx.bytes(f'q{k}', 1, only=(34, 39))[0]
            val = ctx.bytes(f'val{k}', at['val_len'], exclude=(de[0],))
            for b in val:
                ctx.constrain(b_not(b_eq(b, q)))
            src.append(q)
            vspan = [len(src), len(src) + len(val)]
            src += val
            src.append(q)
            attrs.append([aspan, vspan])
    src += ctx.bytes('padr', p['pad_r'], only=(32,))
    src += list(de)
    return src, name_span, attrs


def c09_role(src, exp_name, exp_attrs, got):
    def role():
        if got is None:
            return 'well-formed-tag-rejected'
        # D4-style: a line break between attributes swallowed into the next attribute name
        for (ga, gv) in got['attrs']:
            if ga[0] >= 0 and src[ga[0]] == 10:
                return 'line-break-kept-in-attribute-name'
        return 'tag-parse-mismatch'
    return role


@harness('c09_grammar', covers=['line-break-separator', 'value-contains-blank-or-eq', 'value-contains-start-delimiter', 'two-blank-separator'])
def c09_grammar(ctx, p):
    ds, de = list(p['ds'].encode()), list(p['de'].encode())
    src, name_span, attrs = gen_tag(ctx, p, ds, de)
    for k, at in enumerate(p['attrs']):
        sep = ctx.I.vars[f'sep{k}'] if ctx.symbolic else ctx.values[f'sep{k}']
        cover_if(ctx, 'line-break-separator', b_or(b_eq(b, 10) for b in sep))
        if len(sep) == 2:
            cover_if(ctx, 'two-blank-separator', b_and(b_eq(b, 32) for b in sep))
        if at['kind'] != 'bare' and at['val_len']:
            val = ctx.I.vars[f'val{k}'] if ctx.symbolic else ctx.values[f'val{k}']
            cover_if(ctx, 'value-contains-blank-or-eq', b_or(isin(b, (32, 61, 10)) for b in val))
            cover_if(ctx, 'value-contains-start-delimiter', b_or(b_eq(b, ds[0]) for b in val))
    r = ctx.impl.tags(src, ds, de)
    spans = [(t['kind'], t['bs'], t['be']) for t in r['tokens']]
    ctx.check(spans == [('E', 0, len(src))], f'well-formed tag is not one tag token: {spans}', 'tag-not-one-token')
    got = r['tags'][0]
    role = c09_role(src, name_span, attrs, got)
    ctx.check(got is not None, 'well-formed tag rejected by the tag parser', role)
    ctx.check(got['name'] == name_span, f"name span {got['name']} != expected {name_span}", role)
    ctx.check(got['attrs'] == attrs, f"attributes {got['attrs']} != expected {attrs}", role)


def c09_shapes(max_attrs, val_max, seed, limit):
    import itertools, random
    shapes = []
    kinds = []
    for sep_len in (1, 2):
        kinds.append(dict(kind='bare', sep_len=sep_len, name_len=1))
        for eq_l, eq_r in ((0, 0), (1, 0), (0, 1), (1, 1)):
            for vl in range(0, val_max + 1):
                kinds.append(dict(kind='quoted', sep_len=sep_len, name_len=1, eq_l=eq_l, eq_r=eq_r, val_len=vl))
    kinds.append(dict(kind='bare', sep_len=1, name_len=2))
    kinds.append(dict(kind='quoted', sep_len=1, name_len=2, eq_l=0, eq_r=0, val_len=1))
    for n in range(0, max_attrs + 1):
        for combo in itertools.product(kinds, repeat=n):
            for pad_l, pad_r in ((0, 0), (1, 1)):
                shapes.append(dict(pad_l=pad_l, pad_r=pad_r, name_len=1 if n else 2, attrs=list(combo)))
    rnd = random.Random(seed)
    small = [s for s in shapes if len(s['attrs']) <= 1]
    big = [s for s in shapes if len(s['attrs']) > 1]
    rnd.shuffle(big)
    return small + big[:max(0, limit - len(small))]


# ---------------------------------------------------------------- C10 pairing
SLOT_KINDS = ['open x', 'open y', 'close x', 'close y', 'close z', 'text']


def oracle_pairing(ctx, toks):
    """toks: list of ('T',) | ('O', name_byte) | ('C', name_byte); returns the tree the statement prescribes:
    nested lists ['T', i] | ['E', open_i, close_i, children]"""
    root = []
    stack = []  # entries: [open_idx, name, children]

    def cur():
        return stack[-1][2] if stack else root

    for i, t in enumerate(toks):
        if t[0] == 'T':
            cur().append(['T', i])
        elif t[0] == 'O':
            stack.append([i, t[1], []])
        else:
            d = None
            for k in range(len(stack) - 1, -1, -1):
                if ctx.branch(bytes_eq(stack[k][1], t[1])):
                    d = k
                    break
            if d is None:
                cur().append(['T', i])  # stray closing tag: inert text
                continue
            # elements opened after d and still unclosed become text; their children go to the enclosing element
            while len(stack) > d + 1:
                oi, _, ch = stack.pop()
                cur().extend([['T', oi]] + ch)
            oi, _, ch = stack.pop()
            cur().append(['E', oi, i, ch])
    while stack:
        oi, _, ch = stack.pop()
        cur().extend([['T', oi]] + ch)
    return root


def strip_el(tree):
    return [n if n[0] == 'T' else ['E', n[1], n[2], strip_el(n[4])] for n in tree]


def flatten(tree):
    out = []
    for n in tree:
        if n[0] == 'T':
            out.append(n[1])
        else:
            out.append(n[1])
            out.extend(flatten(n[3]))
            out.append(n[2])
    return out


@harness('c10_pairing', covers=['same-name-nesting', 'crossing-tags', 'stray-close', 'unclosed-open', 'demoted-with-children'])
def c10_pairing(ctx, p):
    L = p['len']
    # x, z: one letter; y: one or two letters (so one name can be a suffix / prefix of another, not only equal or distinct)
    names = {k: ctx.bytes(k, p.get('ylen', 1) if k == 'y' else 1, only=tuple(range(97, 123)) + (tuple(range(65, 91)) if p.get('alpha') == 'mixed' else ())) for k in ('x', 'y', 'z')}
    src = []
    toks = []
    for k in p.get('prefix', []):   # concrete inert tags in front: 'o' = opener of a name that is never closed, 'c' = stray closer,
        if k in ('e', 'b', 's'):   # 'e' = closer without a name `</>`, 'b' = `</ www>` (blank behind the slash: the name is empty), 's' = `<//>`
            src += {'e': [60, 47, 62], 'b': [60, 47, 32, 119, 119, 119, 62], 's': [60, 47, 47, 62]}[k]
            toks.append(('C', [0]))   # a closing tag whose name no element can have: stray, inert text
            continue
        src += [60] + ([47] if k == 'c' else []) + [119, 119, 119, 62]
        toks.append(('O', [119, 119, 119]) if k == 'o' else ('C', [119, 119, 119]))
    for i in range(L):
        k = SLOT_KINDS[ctx.choice(f'slot{i}', len(SLOT_KINDS))]
        if k == 'text':
            if toks and toks[-1][0] == 'T':
                raise_abort()  # two adjacent text slots are one token: the shorter sequence covers it
            src += [116]
            toks.append(('T',))
        elif k.startswith('open'):
            src += [60] + names[k[-1]] + list(p.get('open_suffix', '').encode()) + [62]     # (well-formed attributes behind the name, if the job says so)
            toks.append(('O', names[k[-1]]))
        else:
            src += [60, 47] + names[k[-1]] + list(p.get('close_suffix', '').encode()) + [62]
            toks.append(('C', names[k[-1]]))
    exp = oracle_pairing(ctx, toks)
    flat_e = [n for n in exp if n[0] == 'E']

    def walk(t, depth):
        for n in t:
            if n[0] == 'E':
                yield n, depth
                yield from walk(n[3], depth + 1)
    els = list(walk(exp, 0))
    if any(ctx.symbolic is False or True for _ in ()):
        pass
    # input-side cover points
    nopen = sum(1 for t in toks if t[0] == 'O')
    nclosed = len(els)
    if nopen > nclosed:
        ctx.cover('unclosed-open')
    if sum(1 for t in toks if t[0] == 'C') > nclosed:
        ctx.cover('stray-close')
    for n, d in els:
        for m, d2 in walk(n[3], 0):
            cover_if(ctx, 'same-name-nesting', bytes_eq(toks[n[1]][1], toks[m[1]][1]))
        inner_opens = [j for j in range(n[1] + 1, n[2]) if toks[j][0] == 'O']
        closed_inside = {m[1] for m, _ in walk(n[3], 0)}
        demoted = [j for j in inner_opens if j not in closed_inside]
        if demoted:
            ctx.cover('crossing-tags')
            if any(j + 1 < n[2] and j + 1 not in demoted for j in demoted):
                ctx.cover('demoted-with-children')
    r = ctx.impl.tree(src, [60], [62])
    ctx.check(len(r['tokens']) == len(toks), f"{len(r['tokens'])} tokens for {len(toks)} slots", 'tokenization')
    got = strip_el(r['tree'])
    fl = flatten(got)
    ctx.check(fl == list(range(len(toks))), f'flattened tree visits tokens {fl}, expected each of 0..{len(toks) - 1} once in order',
              'token-lost-duplicated-or-reordered')
    ctx.check(got == exp, f'tree {got} differs from the stack-discipline tree {exp}', 'pairing-mismatch')


def raise_abort():
    from engine import PathAbort
    raise PathAbort()


# ---------------------------------------------------------------- C01 (front end): totality
def no_panic(ctx, fn, what, role='panic'):
    try:
        r = fn()
    except ImplPanic as e:
        ctx.check(False, f'{what} panics: {e}', role)
    ctx.check(True, f'{what} returns normally')
    return r


@harness('c01_front', covers=['tag-present', 'blank-tag-body', 'multibyte-last-char'])
def c01_front(ctx, p):
    """tokenize + element_parser::parse on every tag token + parser::parse never panic"""
    ds, de = delims(p, ctx)
    if 'body' in p:
        body = ctx.bytes('body', p['body'])
        tail = ctx.bytes('tail', p.get('tail', 0))
        src = list(ds) + body + list(de) + tail
        cover_if(ctx, 'blank-tag-body', b_and(b_eq(b, 32) for b in body))
    else:
        src = ctx.bytes('src', p['n'])
    if src:
        cover_if(ctx, 'multibyte-last-char', is_cont_expr(src[-1]))
    r = no_panic(ctx, lambda: ctx.impl.tags(src, ds, de), 'tokenize / element_parser::parse')
    if any(t['kind'] == 'E' for t in r['tokens']):
        ctx.cover('tag-present')
    no_panic(ctx, lambda: ctx.impl.tree(src, ds, de), 'parser::parse')


# ---------------------------------------------------------------- C09 (second half): quoted values are opaque for every removal decision
@harness('c09_opaque', covers=['ready-element-with-opaque-value', 'pending-element-with-opaque-value', 'value-contains-blank-or-eq'])
def c09_opaque(ctx, p):
    from impl import default_cfg
    q = ord(p['quote'])
    val = ctx.bytes('val', p['n'], exclude=(q, 62))
    cover_if(ctx, 'value-contains-blank-or-eq', b_or(isin(b, (32, 61, 10)) for b in val))
    cfg = default_cfg(tl_tag=list(b't'), rm_tag=list(b'm'), targets=[list(b'x')], now=1704067200)
    head, tail = p['head'], p['tail']
    src = list(b'A<') + list(head.encode()) + [q] + val + [q] + list(tail.encode()) + list(b'>q</') + [ord(head[0])] + list(b'>B')
    out = ctx.impl.clean(src, [60], [62], cfg)
    if p['ready']:
        ctx.cover('ready-element-with-opaque-value')
        ctx.check(len(out) == 2 and out[0] == 65 and out[1] == 66, 'a quoted attribute value changed the removal decision of a ready element (or the strategy)',
                  'quoted-value-changes-decision')
    else:
        ctx.cover('pending-element-with-opaque-value')
        ctx.check(len(out) == len(src) and b_and(b_eq(a, b) if a is not b else True for a, b in zip(out, src)),
                  'a quoted attribute value made a pending element removable', 'quoted-value-changes-decision')


def c09_opaque_jobs(tier):
    jobs = []
    exp, fut = "to='2001-01-01 00:00:00'", "to='2999-01-01 00:00:00'"
    shapes = [("m name='x' c=", "", True), ("m c=", " name='x'", True), ("m name='n' c=", "", False), ("t " + exp + " c=", "", True), ("t c=", " " + fut, False),
              ("m name='x' c=", " d='1'", True), ("t c=", " " + exp + " e", True)]
    for n in ((4,) if tier == 'quick' else (1, 2, 3, 4, 5, 6)):
        for head, tail, ready in shapes:
            for quote in ('"', "'"):
                jobs.append(dict(harness='c09_opaque', label=f'opaque value |v|={n} <{head}{quote}…{quote}{tail}> ready={ready}',
                                 params=dict(n=n, head=head, tail=tail, ready=ready, quote=quote)))
    return jobs
