"""List harnesses: C15 (list = what clean deletes), C16 (rendering), C17 (list_all composition)."""
import random
import z3
from engine import is_sym, PathAbort
from models import b_eq, b_and, b_or, b_not, bytes_eq
from harness import harness
from impl import ImplPanic
from templates import *
from props_front import cover_if, no_panic
import props_pipe
from props_pipe import H, O, C, RX, PN, RT, PT, SK, base_cfg, cfg_from, instantiate, variants, STRUCT

ESC_RED, ESC_YELLOW, ESC_GREEN, ESC_RESET = list(b'\x1b[31m'), list(b'\x1b[33m'), list(b'\x1b[32m'), list(b'\x1b[0m')


def no_linebreak_classes(tpl):
    """list harnesses count lines: holes must not contain line breaks (and no ESC byte)"""
    out = []
    for p in tpl:
        if isinstance(p, tuple) and p[0] == 'h':
            out.append(('h', p[1], {'ws': 'ind', 'nd': 'txt', 'any': 'txt'}.get(p[2], p[2])))
        else:
            out.append(p)
    return out


def count_nl(bs):
    return sum(1 for b in bs if isinstance(b, int) and b == 10)


def line_start_of(src, pos):
    s = pos
    while s > 0 and not (isinstance(src[s - 1], int) and src[s - 1] == 10):
        s -= 1
    return s


def line_end_of(src, pos):
    e = pos
    while e < len(src) and not (isinstance(src[e], int) and src[e] == 10):
        e += 1
    return e


def oracle_regions(src, parts, cfg):
    """(regions of Ready items, regions of all items) as lists of (start, end, status) in source order, per C15 / C17"""
    ready, pending, allel = evaluate(src, parts, cfg)
    rr = []
    for e in ready:
        if e['inside_ready']:
            continue  # nested inside a larger deleted region
        for (s, en) in e['extents']:
            rr.append((s, en, 'Ready'))
    pr = []
    for e in pending:
        for (s, en) in e['extents']:
            pr.append((s, en, 'Pending'))
    # Pending regions wholly inside a Ready region, or inside a larger Pending region, are not listed
    keep = []
    for (s, en, st) in pr:
        if any(qs <= s and en <= qe for (qs, qe, _) in rr):
            continue
        if any(qs <= s and en <= qe and (qe - qs) > (en - s) for (qs, qe, _) in pr):
            continue
        keep.append((s, en, st))
    rr.sort()
    allr = sorted(rr + keep)
    return rr, allr


def expand_tabs(ctx, bs):
    out = []
    for b in bs:
        if (is_sym(b) and ctx.branch(b == 9)) or (not is_sym(b) and b == 9):
            out += [32, 32, 32, 32]
        else:
            out.append(b)
    return out


NUMW = 7  # the line-number column of the existing rendering: number right-aligned in 7, blank, '|'


def render_item(ctx, src, s, e, status, coloring):
    """reference rendering of one item (C16): _start marker, numbered source lines first..last with tabs expanded, end marker"""
    first = 1 + count_nl(src[:s])
    last = 1 + count_nl(src[:e - 1])
    ls = line_start_of(src, s)
    le = line_end_of(src, e - 1)
    lls = line_start_of(src, e - 1)
    col_s = len(expand_tabs(ctx, src[ls:s]))
    col_e = len(expand_tabs(ctx, src[lls:e])) - 1   # the last column the removed text occupies (a removed tab at the very end occupies four)
    out = [32] * (NUMW + 2 + col_s) + (ESC_GREEN if coloring else []) + list(b'_start') + (ESC_RESET if coloring else []) + [10]
    color = (ESC_RED if status == 'Ready' else ESC_YELLOW) if coloring else []
    reset = ESC_RESET if coloring else []
    pos = ls
    num = first
    while pos <= le:
        eol = line_end_of(src, pos)
        line = []
        # highlighted part of this line: intersection with [s, e)
        a, b = max(pos, s), min(eol, e)
        if a < b:
            line = expand_tabs(ctx, src[pos:a]) + color + expand_tabs(ctx, src[a:b]) + reset + expand_tabs(ctx, src[b:eol])
        elif s <= pos and eol < e:
            line = color + reset  # an empty line inside the region is an empty highlighted piece
        else:
            line = expand_tabs(ctx, src[pos:eol])
        out += list(('%*d |' % (NUMW, num)).encode()) + line + [10]
        num += 1
        pos = eol + 1
    out += [32] * (NUMW + 2 + col_e) + (ESC_GREEN if coloring else []) + list('‾end'.encode()) + (ESC_RESET if coloring else [])
    return out, (first, last)


def headers(i, status):
    return list(('\n-------- [ %d ]%s--------\n' % (i, '  Ready  ' if status == 'Ready' else ' Pending ')).encode())


def seq_equal(a, b):
    return len(a) == len(b) and b_and(same(x, y) for x, y in zip(a, b))


def highlights(out):
    """concrete scan of a coloured pretty output: list (per item) of highlighted segments"""
    items = []
    i = 0
    n = len(out)

    def at(pat, k):
        return k + len(pat) <= n and all(isinstance(out[k + j], int) and out[k + j] == pat[j] for j in range(len(pat)))
    hdr = list(b'\n-------- [ ')
    cur = None
    while i < n:
        if at(hdr, i):
            cur = []
            items.append(cur)
            i += len(hdr)
        elif at(ESC_RED, i) or at(ESC_YELLOW, i):
            j = i + len(ESC_RED)
            k = j
            while not at(ESC_RESET, k):
                k += 1
            cur.append(out[j:k])
            i = k + len(ESC_RESET)
        else:
            i += 1
    return items


def sibling_document(src):
    """same length, same first and last 32 bytes, but one line more or less in the middle: a concrete blank there becomes a line
    break (or a concrete line break becomes a blank). None if the document is too short for that."""
    lo, hi = 33, len(src) - 33
    for i in range(lo, hi):
        if isinstance(src[i], int) and src[i] == 32:
            return src[:i] + [10] + src[i + 1:]
    for i in range(lo, hi):
        if isinstance(src[i], int) and src[i] == 10:
            return src[:i] + [32] + src[i + 1:]
    return None


def list_template(ctx, p):
    ds, de = list(p.get('ds', '<').encode()), list(p.get('de', '>').encode())
    cfg = cfg_from(p)
    src, parts = render(ctx, no_linebreak_classes(p['tpl']), ds, de)
    for b in src:
        if is_sym(b):
            ctx.constrain(z3.And(b != 0x1b, b != 13))  # no ESC; no CR (str::lines() drops a CR before a line break: CRLF sources are outside the claim)
    return ds, de, cfg, src, parts


@harness('c15_list', covers=['ready-region', 'unwrapped-element-two-regions', 'nested-region-dropped', 'multi-line-region'])
def c15_list(ctx, p):
    ds, de, cfg, src, parts = list_template(ctx, p)
    rr, allr = oracle_regions(src, parts, cfg)
    ready, _, _ = evaluate(src, parts, cfg)
    if rr:
        ctx.cover('ready-region')
    if any(e['unwrap'] for e in ready):
        ctx.cover('unwrapped-element-two-regions')
    if any(e['inside_ready'] for e in ready):
        ctx.cover('nested-region-dropped')
    if any(count_nl(src[s:e]) for s, e, _ in rr):
        ctx.cover('multi-line-region')
    # a pure function of (source, configuration): listing a sibling document first (same length, same head and tail, a line
    # break moved) must leave no trace in the listing of this one
    sib = sibling_document(src)
    if sib is not None:
        ctx.impl.list(sib, ds, de, cfg, all=False, format='json')
    js = ctx.impl.list(src, ds, de, cfg, all=False, format='json')
    got = [(tuple(it['line_range']), it['current_status']) for it in js['items']]
    exp = [((1 + count_nl(src[:s]), 1 + count_nl(src[:e - 1])), 'Ready') for s, e, _ in rr]
    ctx.check(got == exp, f'Ready items (first line, last line) {got} differ from the regions clean deletes {exp}',
              (lambda: 'first-byte-line-break-shifts-lines' if src and src[0] == 10 else 'list-regions-differ'))
    pr = ctx.impl.list(src, ds, de, cfg, all=False, format='pretty')['out']
    hl = highlights(pr)
    ctx.check(len(hl) == len(rr), f'{len(hl)} items in the pretty listing, {len(rr)} regions', 'list-regions-differ')
    for segs, (s, e, _) in zip(hl, rr):
        region_lines = [expand_tabs(ctx, l) for l in props_pipe.split_lines(src[s:e])]
        # str::lines() drops a final empty piece
        if region_lines and region_lines[-1] == [] and len(region_lines) > 1:
            region_lines.pop()
        ctx.check(len(segs) == len(region_lines) and b_and(seq_equal(a, b) for a, b in zip(segs, region_lines)),
                  'highlighted text differs from the text of the region', 'highlight-differs-from-region')
    # ... and these regions are what clean deletes (before tidying): the output is the input minus the regions and blanks
    out = ctx.impl.clean(src, ds, de, cfg)
    mask = [False] * len(src)
    for s_, e_, _ in rr:
        for k in range(s_, e_):
            mask[k] = True
    ctx.check(align([i for i in range(len(src)) if not mask[i]], src, out, lambda i: is_blank(src[i])),
              'clean does not delete exactly the listed Ready regions', 'clean-deletes-other-than-listed')
    # pure function of source and configuration: asking again gives the same listing
    js2 = ctx.impl.list(src, ds, de, cfg, all=False, format='json')
    ctx.check([(tuple(it['line_range']), it['current_status']) for it in js2['items']] == got and
              b_and(seq_equal(a['annotated_code_block'], b['annotated_code_block']) for a, b in zip(js['items'], js2['items'])),
              'listing twice gives different results', 'list-not-pure')


@harness('c17_list_all', covers=['pending-listed', 'pending-inside-ready-dropped', 'pending-inside-pending-dropped', 'two-pending-before-ready',
                                 'pending-in-unwrap-body'])
def c17_list_all(ctx, p):
    ds, de, cfg, src, parts = list_template(ctx, p)
    rr, allr = oracle_regions(src, parts, cfg)
    ready, pending, allel = evaluate(src, parts, cfg)
    if any(st == 'Pending' for _, _, st in allr):
        ctx.cover('pending-listed')
    listed = {(s, e) for s, e, _ in allr}
    for e_ in pending:
        for (s, en) in e_['extents']:
            if (s, en) not in listed:
                if any(qs <= s and en <= qe for qs, qe, _ in rr):
                    ctx.cover('pending-inside-ready-dropped')
                else:
                    ctx.cover('pending-inside-pending-dropped')
    sts = [st for _, _, st in allr]
    for i in range(len(sts) - 2):
        if sts[i] == 'Pending' and sts[i + 1] == 'Pending' and 'Ready' in sts[i + 2:]:
            ctx.cover('two-pending-before-ready')
    for u in ready:
        if u['unwrap'] and any(u['extents'][0][1] <= s and en <= u['extents'][1][0] and st == 'Pending' for s, en, st in allr):
            ctx.cover('pending-in-unwrap-body')
    ja = ctx.impl.list(src, ds, de, cfg, all=True, format='json')
    got = [(tuple(it['line_range']), it['current_status']) for it in ja['items']]
    exp = [((1 + count_nl(src[:s]), 1 + count_nl(src[:e - 1])), st) for s, e, st in allr]

    def role():
        if src and src[0] == 10:
            return 'first-byte-line-break-shifts-lines'
        if sorted(got) == sorted(exp):
            return 'list-all-order'
        return 'list-all-items-differ'
    ctx.check(got == exp, f'list_all items {got} differ from Ready + outstanding Pending regions in source order {exp}', role)
    jl = ctx.impl.list(src, ds, de, cfg, all=False, format='json')
    only_ready = [g for g in got if g[1] == 'Ready']
    ctx.check(only_ready == [(tuple(it['line_range']), it['current_status']) for it in jl['items']], 'Ready items of list_all differ from the plain list',
              'ready-items-differ-from-list')


@harness('c16_render', covers=['tab-before-marker', 'multi-line-item', 'pending-item', 'region-not-at-line-start'])
def c16_render(ctx, p):
    ds, de, cfg, src, parts = list_template(ctx, p)
    rr, allr = oracle_regions(src, parts, cfg)
    ja = ctx.impl.list(src, ds, de, cfg, all=True, format='json')
    gotseq = [(tuple(it['line_range']), it['current_status']) for it in ja['items']]
    expseq = [((1 + count_nl(src[:s]), 1 + count_nl(src[:e - 1])), st) for s, e, st in allr]
    if [st for _, st in gotseq] != [st for _, st in expseq]:
        raise PathAbort()  # which items are listed, and in which order, is C15 / C17's subject; here: how each item is rendered
    pretty = ctx.impl.list(src, ds, de, cfg, all=True, format='pretty')['out']
    exp_pretty = []
    for i, (s, e, st) in enumerate(allr):
        if st == 'Pending':
            ctx.cover('pending-item')
        if count_nl(src[s:e]):
            ctx.cover('multi-line-item')
        ls = line_start_of(src, s)
        if s > ls:
            ctx.cover('region-not-at-line-start')
            cover_if(ctx, 'tab-before-marker', b_or(b_eq(b, 9) for b in src[ls:s]))
        plain, (first, last) = render_item(ctx, src, s, e, st, False)
        col, _ = render_item(ctx, src, s, e, st, True)
        it = ja['items'][i]
        role = (lambda: 'first-byte-line-break-shifts-lines' if src and src[0] == 10 else 'rendering-differs')
        ctx.check(tuple(it['line_range']) == (first, last) and it['current_status'] == st,
                  f"item {i}: line_range/status {it['line_range']} {it['current_status']} != {(first, last)} {st}", role)
        ctx.check(seq_equal(it['annotated_code_block'], plain), f'item {i}: JSON code block differs from the reference rendering', role)
        exp_pretty += headers(i + 1, st) + col
    exp_pretty += [10]
    ctx.check(seq_equal(pretty, exp_pretty), 'pretty listing differs from the reference rendering (headers, colours, numbered lines, markers)',
              (lambda: 'first-byte-line-break-shifts-lines' if src and src[0] == 10 else 'rendering-differs'))


LIST_TPL = {
    'pending-siblings-then-ready': ["A\n", O('m', PN), "\np1\n", C('m'), "\n", H(1, 'ind'), O('t', PT), "\np2\n", C('t'), "\n", O('m', RX), "\nr\n", C('m'), "\nB", H(1, 'txt'), "\n"],
    'pending-children-in-ready': ["A\n", O('m', RX), "\n", O('t', PT), "\nc1\n", C('t'), "\n", H(1, 'ind'), O('m', PN), "\nc2\n", C('m'), "\n", C('m'), "\nB\n"],
    'ready-then-pending': [H(1, 'txt'), "A\n", O('m', RX), "\nr\n", C('m'), "\n", O('m', PN), "\np\n", C('m'), "\n", O('t', PT), "\nq\n", C('t'), "\nB\n"],
    'pending-in-pending': ["A\n", O('m', PN), "\n", H(1, 'ind'), O('t', PT), "\nin\n", C('t'), "\nx\n", C('m'), "\nB\n", O('t', RT), "\nr\n", C('t'), "\n"],
    'pending-in-unwrap-body': ["A\n", O('m', RX + ' unwrap-block'), "\n{\n", H(1, 'ind'), O('t', PT), "\nk\n", C('t'), "\n", H(1, 'ind'), "j\n}\n", C('m'), "\nB\n"],
    'pending-unwrap-with-pending-child': ["A\n", O('m', PN + ' unwrap-block'), "\n{\n", O('t', PT), "\nk\n", C('t'), "\nj", H(1, 'txt'), "\n}\n", C('m'), "\nB\n", O('t', RT), "\nr\n", C('t'), "\n"],
    'three-pending-ready-pending': ["A\n", O('m', PN), "x", C('m'), "\n", O('m', PN), "y", C('m'), "\n", O('m', PN), "z", C('m'), H(1, 'sp'), "\n", O('t', RT), "r", C('t'), "\n", O('t', PT), "w", C('t'), "\nB\n"],
    'tabs-and-columns': ["f() {\n", H(1, 'ind'), "\tab", H(1, 'ind'), O('m', RX), "\n\t\tq\n\t", H(1, 'ind'), C('m'), "c\n}\n"],
    'inline-two-on-a-line': ["a ", O('m', RX), "x", C('m'), H(1, 'sp'), "b ", O('t', RT), "y\nz", C('t'), " c ", O('m', PN), "w", C('m'), "\nB\n"],
    'skip-and-unregistered': ["A\n", O('m', SK), "\ns\n", C('m'), "\n", O('u'), "\nu\n", C('u'), "\n", H(1, 'ind'), O('m', PN + ' unwrap-block'), "\nonly-one-line\n", C('m'), "\n", O('m', RX), "\nr\n", C('m'), "\nB\n"],
    'pending-nonunwrappable-with-pending-child': ["A\n", O('m', PN + ' unwrap-block'), "\n", H(1, 'ind'), O('t', PT), "only", C('t'), "\n", C('m'), "\nB\n", O('m', PN + ' unwrap-block'), O('t', PT), "k", C('t'), C('m'), "\n",
                                                  O('t', RT), "\nr\n", C('t'), "\n"],
    'pending-child-opens-on-ready-unwrap-tag-line': ["A\n", O('m', RX + ' unwrap-block'), H(1, 'sp'), O('t', PT), "\n{\n", H(1, 'ind'), "k\n", C('t'), "\n  j\n}\n", C('m'), "\nB\n"],
    'ready-skip-element': ["A\n", O('m', SK), "\ns\n", C('m'), "\n", H(1, 'ind'), O('t', RT + ' skip'), "\nq\n", C('t'), "\n", O('m', RX), "\nr\n", C('m'), "\nB\n"],
    'starts-with-tag': [O('m', RX), "\nr", H(1, 'txt'), "\n", C('m'), "\nB\n", O('t', RT), "x", C('t'), O('m', RX), "y", C('m'), H(1, 'txt'), "\n"],
    'adjacent-inline': ["a", O('m', RX), "x", C('m'), O('t', RT), "y", C('t'), O('m', PN), "p", C('m'), H(1, 'txt'), O('t', RT), "z", C('t'), "\nB\n"],
    'leading-line-break-then-tag': ["\n", H(1, 'ind'), O('m', RX), "\nr\n", C('m'), "\nB", H(1, 'txt'), "\n"],
    # tags spread over several lines: the one-byte end delimiter is the first byte of a line (the region's last line is that line)
    'multi-line-tags-block': ["A\n", H(1, 'ind'), O('m', RX + "\n"), "\nr\n", C('m', "\n"), H(1, 'txt'), "\nB\n"],
    'multi-line-tags-inline': ["a ", O('t', RT + "\n"), "x", C('t', "\n"), H(1, 'txt'), " b\n", O('m', PN + "\n"), "p", C('m', "\n"), "\nB\n"],
    # regions whose last byte lies inside a multi-byte character (end of an unwrap wrapper line) and multi-byte text around the tags
    'unwrap-wrapper-lines-end-multibyte': ["A\n", O('m', RX + ' unwrap-block'), "\nif (x) { // 公開", H(1, 'nb'), "\n  k;\n} // 終了", H(1, 'txt'), "\n", C('m'), "\nB\n"],
    'multibyte-around-tags': ["日本語", H(1, 'txt'), O('m', RX), "削除", C('m'), "語", H(1, 'txt'), "\né ", O('t', RT), "\nq\n", C('t'), "é\n"],
    # unwrap blocks that cannot be unwrapped because a single (empty) line lies between their tags: not listed, neither Ready nor Pending
    'nonunwrappable-single-empty-line': ["A\n", O('m', PN + ' unwrap-block'), "\n", H(1, 'ind'), "\n", C('m'), "\n", O('t', RT + ' unwrap-block'), "\n\n", C('t'), "\nB\n", O('t', RT), "r", C('t'), H(1, 'txt'), "\n"],
    # a free byte at the start of lines in front of and inside a region (vertical tab, form feed, ... are ordinary text for the line count)
    'free-byte-at-line-starts': ["A\n", H(1, 'txt'), "x\n", H(1, 'txt'), "y\n", O('m', RX), "\n", H(1, 'txt'), "r\n", C('m'), "\nB\n", O('t', RT), "z", C('t'), "\n"],
    'unicode-line-separators-are-text': ["A\u2028x\n", H(1, 'ind'), O('m', RX), "\nq\u2029r\x0b\n\x0cs\u0085\n", C('m'), "\n", H(1, 'txt'), "B\u2028\n", O('t', RT), "\nz\n", C('t'), "\n"],
    # the last removed character of the opening part of an unwrapped element is a tab / blank at the end of the wrapper line
    'unwrap-wrapper-lines-end-in-blanks': ["f() {\n\t", O('m', RX + ' unwrap-block'), "\n\tif (released) {", H(1, 'ind'), "\n\t\tk;\n\t}", H(1, 'ind'), "\n\t", C('m'), "\nB\n"],
    'flags-with-values': ["A\n", O('t', RT + " skip='true'"), "\nq\n", O('m', PN), "p", C('m'), "\n", C('t'), "\n", O('m', RX + ' unwrap-block="1"'), "\n{\n", O('t', PT), "\nk\n", C('t'), "\n}\n", C('m'), "\n",
                          O('m', "skip=\"skip\" " + PN), "r", C('m'), H(1, 'txt'), "\nB\n"],
    'leading-line-break': ["\n", H(1, 'ind'), "A\n", O('m', RX), "\nr\n", C('m'), "\nB\n"],
}


def list_jobs(hname):
    def f(tier, seed):
        rnd = random.Random(seed + 15)
        jobs = []
        budget = 2 if tier == 'quick' else 4
        base = dict(LIST_TPL)
        names = ['block', 'inline', 'two-blocks', 'ready-in-pending', 'pending-in-ready', 'unwrap', 'unwrap-nested-pending', 'unwrap-nested-ready', 'ready-in-ready',
                 'indented-block-tabs', 'first-line', 'last-line', 'unwrap-pending', 'touching', 'multibyte-seam', 'only-element', 'ready-in-skip', 'blank-lines']
        if tier == 'quick':
            names = names[:10]
        for n in names:
            base['S:' + n] = STRUCT[n]
        for name, tpl in base.items():
            if hname == 'c15_list' and name.startswith('leading-line-break'):
                continue  # C15 quantifies over files whose first byte is not a line break
            for sizes in variants(tpl, budget, 2, rnd, 2 if tier == 'quick' else 10):
                jobs.append(dict(harness=hname, label=f'{name} holes={sizes}', params=dict(tpl=instantiate(tpl, sizes))))
        # the same documents bent by the template transformers of props_pipe (ends with the last tag, multi-byte text, inside a skipped element, ...)
        from props_pipe import TRANSFORMERS
        rnd_t = random.Random(seed * 31 + 5)
        combos = [(n, t) for n in sorted(base) for t in sorted(TRANSFORMERS) if not (hname == 'c15_list' and n.startswith('leading-line-break'))
                  and not t.startswith('cr-lf')]   # CR LF sources are outside the list claims (str::lines() drops the CR)
        if tier == 'quick':
            combos = rnd_t.sample(combos, 24)
        for n, t in combos:
            tpl = TRANSFORMERS[t](base[n])
            if not tpl:
                continue
            for sizes in variants(tpl, budget, 2, rnd_t, 1):
                jobs.append(dict(harness=hname, label=f'{n} [{t}] holes={sizes}', params=dict(tpl=instantiate(tpl, sizes))))
        # large fixed documents (300 siblings, 20 KB of multi-byte lines, one 9000-character line): thresholds in the listing code
        from props_pipe import scale_templates
        for n, tpl in scale_templates().items():
            if 'nesting' in n or (tier == 'quick' and n != 'scale-300-siblings'):
                continue
            jobs.append(dict(harness=hname, label=f'{n} holes=[1]', params=dict(tpl=instantiate(tpl, [1]))))
        # multi-byte delimiters: the last byte of a default-strategy region is then inside a character as well
        for name in ('pending-siblings-then-ready', 'inline-two-on-a-line', 'unwrap-wrapper-lines-end-multibyte') + (() if tier == 'quick' else ('adjacent-inline', 'tabs-and-columns')):
            if name in base:
                for sizes in variants(base[name], budget, 2, rnd, 1):
                    jobs.append(dict(harness=hname, label=f"{name} holes={sizes} ds='«' de='»'", params=dict(tpl=instantiate(base[name], sizes), ds='«', de='»')))
        return jobs
    return f
