"""Pipeline harnesses: the real chiritori::clean on documents with holes.
C02 / C03 / C04 / C14 (one exploration, four assertion sets), C06, C11, C12, C13, C18, C19 and the pipeline part of C01."""
import itertools, random
import z3
from engine import is_sym, PathAbort
from models import b_eq, b_and, b_or, b_not, bytes_eq
from harness import harness, show, uge
from impl import ImplPanic, default_cfg
from templates import *
from props_front import cover_if, no_panic

NOW = 1704067200  # 2024-01-01T00:00:00Z
EXPIRED = "to='2001-01-01 00:00:00'"
FUTURE = "to='2999-01-01 00:00:00'"
MALFORMED = "to='2001/01/01 00:00:00'"


def H(k, cls='nd'):
    return ('h', k, cls)


def O(name, attrs=''):
    return ('o', name, attrs)


def C(name, pad=''):
    return ('c', name, pad) if pad else ('c', name)


def base_cfg(**kw):
    c = default_cfg(tl_tag=list(b't'), rm_tag=list(b'm'), targets=[list(b'x')], now=NOW)
    c.update(kw)
    return c


def cfg_from(p):
    c = base_cfg()
    for k, v in p.get('cfg', {}).items():
        c[k] = v
    return c


def instantiate(tpl, sizes):
    """tpl with hole slots ('h', maxk, cls): give slot i the size sizes[i]"""
    out = []
    i = 0
    for part in tpl:
        if isinstance(part, tuple) and part[0] == 'h':
            out.append(('h', sizes[i], part[2]))
            i += 1
        else:
            out.append(part)
    return out


def variants(tpl, budget, max_active=3, rnd=None, limit=None):
    """all assignments of sizes to the hole slots with total <= budget and at most max_active non-empty slots"""
    slots = [p for p in tpl if isinstance(p, tuple) and p[0] == 'h']
    res = []

    def rec(i, left, active, cur):
        if i == len(slots):
            if any(cur):
                res.append(list(cur))
            return
        rec(i + 1, left, active, cur + [0])
        if active < max_active:
            for k in range(1, min(slots[i][1], left) + 1):
                rec(i + 1, left - k, active + 1, cur + [k])

    rec(0, budget, 0, [])
    if limit is None or len(res) <= limit:
        return res
    # fixed core (independent of the seed): every slot alone at its largest size, and every pair of neighbouring slots;
    # the rest of the quota is a seeded sample, so different VERIF_SEED values widen the coverage
    core = []
    for i, sl in enumerate(slots):
        v = [0] * len(slots)
        v[i] = min(sl[1], budget)
        core.append(v)
        if i + 1 < len(slots) and max_active >= 2:
            w = list(v)
            w[i] = min(sl[1], max(1, budget // 2))
            w[i + 1] = min(slots[i + 1][1], budget - w[i])
            if w[i + 1] > 0:
                core.append(w)
    rest = [r for r in res if r not in core]
    (rnd or random).shuffle(rest)
    return (core + rest[:max(0, limit - len(core))])[:max(limit, 1)]


# ---------------------------------------------------------------- structured templates (delimiters '<' '>')
RX, PN, RT, PT, MT, SK = "name='x'", "name='n'", EXPIRED, FUTURE, MALFORMED, "name='x' skip"

STRUCT = {
    'block': [H(2), "A\n", H(2, 'ind'), O('m', RX), H(1, 'ind'), "\n", H(2, 'ws'), "foo", H(2), "\n", H(2, 'ind'), C('m'), H(1, 'ind'), "\n", H(2, 'ws'), "B", H(2)],
    'block-time': [H(2), "\n", H(2, 'ind'), O('t', RT), "\n", H(2, 'nd'), "\n", C('t'), "\n", H(2)],
    'inline': [H(3), O('m', RX), H(2), "q", C('m'), H(3)],
    'inline-spaces': ["a", H(2, 'ws'), O('m', RX), "q", C('m'), H(2, 'ws'), "b"],
    'two-blocks': ["A\n", H(1, 'ws'), O('m', RX), "\nx\n", C('m'), H(2, 'ws'), "\n", H(2, 'nd'), "\n", H(1, 'ws'), O('t', RT), "\ny\n", C('t'), "\n", H(2, 'ws'), "B"],
    'touching': [H(2), O('m', RX), "x", C('m'), H(2, 'ws'), O('t', RT), "y", C('t'), H(2)],
    'ready-in-pending': ["A\n", O('m', PN), "\n", H(2), "\n", H(2, 'ind'), O('m', RX), "\nfoo\n", H(2, 'ind'), C('m'), "\n", H(2), "\n", C('m'), "\nB", H(1)],
    'pending-in-ready': [H(2), "\n", O('m', RX), "\n", H(1), O('t', PT), "\nk\n", C('t'), H(1), "\n", C('m'), "\n", H(2)],
    'ready-in-skip': ["A", H(1, 'ws'), O('m', SK), H(2, 'ws'), O('t', RT), "q", C('t'), H(2, 'ws'), C('m'), H(1, 'ws'), "B"],
    'ready-in-unregistered': [H(1), O('u'), H(2, 'ws'), O('m', RX), "q", C('m'), H(2, 'ws'), C('u'), H(1)],
    'ready-in-malformed': [H(1), O('t', MT), "\n", H(2, 'ind'), O('m', RX), "\nq\n", C('m'), "\n", H(2, 'ws'), C('t'), H(1)],
    'ready-in-ready': [H(2), O('m', RX), H(1), O('t', RT), "q", C('t'), H(1), C('m'), H(2)],
    'unclosed-then-ready': ["A", O('m', PN), H(2, 'ws'), O('m', RX), "q", C('m'), H(2, 'ws'), "B"],
    'crossing': ["A", O('t', RT), H(1, 'ws'), O('m', RX), "p", C('t'), H(1, 'ws'), "q", C('m'), H(2, 'ws'), "B"],
    'blank-lines': ["A\n", H(2, 'ws'), "\n", O('m', RX), "\nq\n", C('m'), "\n", H(2, 'ws'), "\nB\n"],
    'indented-block-tabs': ["f() {\n", H(2, 'ind'), "a;\n", H(2, 'ind'), O('t', RT), "\n", H(2, 'ind'), "b;\n", H(2, 'ind'), C('t'), "\n", H(2, 'ind'), "c;\n}\n"],
    'multibyte-seam': [H(3, 'nb'), O('m', RX), "語", C('m'), H(3, 'nb')],
    'first-line': [H(1, 'ind'), O('m', RX), "\nq\n", C('m'), "\n", H(2, 'ws'), "B", H(1)],
    'last-line': [H(1), "A", H(2, 'ws'), "\n", O('m', RX), "\nq\n", C('m'), H(2, 'ws')],
    'only-element': [H(1, 'ws'), O('m', RX), H(2), C('m'), H(1, 'ws')],
    'unwrap': ["A\n", H(2, 'ind'), O('m', RX + ' unwrap-block'), "\n", H(2, 'ind'), "if (x) {\n", H(2, 'ind'), "b;", H(1, 'txt'), "\n", H(2, 'ind'), "c;\n", H(2, 'ind'), "}\n", H(2, 'ind'), C('m'), "\nB", H(1)],
    'unwrap-nested-ready': ["A\n", O('t', RT + ' unwrap-block'), "\n{\n", H(2, 'ind'), "p;\n", H(2, 'ind'), O('m', RX), "\n", H(1, 'txt'), "\n", C('m'), "\n", H(2, 'ind'), "q;\n}\n", C('t'), "\nB\n"],
    'unwrap-nested-pending': ["A\n", O('m', RX + ' unwrap-block'), "\n{\n", H(2, 'ind'), O('m', PN), "\n", H(2, 'ind'), "k", H(1, 'txt'), "\n", H(2, 'ind'), C('m'), "\n}\n", C('m'), "\nB\n"],
    'unwrap-pending': ["A\n", O('m', PN + ' unwrap-block'), "\n{\n", H(2, 'ind'), "k\n", H(2, 'ws'), "}\n", C('m'), H(2, 'ws'), "B"],
    'unwrap-inline-untouched': [H(3), O('m', RX + ' unwrap-block'), H(2, 'txt'), "{b}", H(1, 'txt'), C('m'), H(2)],
    'unwrap-one-line-between': ["A\n", H(1, 'ind'), O('m', RX + ' unwrap-block'), "\n", H(2, 'txt'), "x\n", H(1, 'ind'), C('m'), "\nB", H(2)],
    'unwrap-in-unwrap': ["A\n", O('m', RX + ' unwrap-block'), "\n{\n", H(1, 'ind'), O('t', RT + ' unwrap-block'), "\n", H(1, 'ind'), "[\n", H(2, 'ind'), "k;\n", H(1, 'ind'), "]\n", H(1, 'ind'), C('t'), "\n}\n", C('m'), "\nB\n"],
    # children sitting on the wrapper lines of an unwrap-block (C02/C03/C14 quantify over all sources)
    'child-opens-on-head-wrapper': ["A\n", O('m', RX + ' unwrap-block'), "\nif (f) {", H(1, 'sp'), O('t', RT), "\n", H(1, 'txt'), "q;\n", C('t'), "\n", H(2, 'ind'), "k;\n}\n", C('m'), "\nB", H(1)],
    'child-opens-on-tag-line': ["A\n", O('m', RX + ' unwrap-block'), H(1, 'sp'), O('t', RT), "\n{\nq;\n", C('t'), "\n", H(2, 'ind'), "k;\n", H(1, 'txt'), "j;\n}\n", C('m'), "\nB", H(1)],
    'child-closes-on-tail-wrapper': ["A\n", O('m', RX + ' unwrap-block'), "\n{\n", H(2, 'ind'), "k;\n", O('t', RT), "\nq;\n}", H(1, 'sp'), C('t'), "\n", C('m'), "\nT1", H(1, 'nb'), "\nT2\n"],
    'child-closes-on-tail-wrapper-eof': ["A\n", O('m', RX + ' unwrap-block'), "\n{\n", H(2, 'ind'), "k;\n", O('t', RT), "\nq;\n}", H(1, 'sp'), C('t'), "\n", C('m'), H(2, 'nb')],
    'child-on-tail-then-later-removal': ["A\n", O('m', RX + ' unwrap-block'), "\n{\n  k;\n} ", O('t', RT), "c", C('t'), "\n", C('m'), "\nf() {\n", H(2, 'ind'), "  one();\n", H(2, 'ind'), "    two();\n}\n",
                                         O('t', RT), "\nz\n", C('t'), "\nB\n"],
    'inline-child-in-head-wrapper': ["A\n", O('t', RT + ' unwrap-block'), "\nif ", O('m', RX), "c", C('m'), " {\n", H(2, 'ws'), "k\n}\n", C('t'), H(2, 'ws'), "B"],
    'unwrap-end-tag-line-has-inner-element': ["A\n", O('m', RX + ' unwrap-block'), "\nif {\n", H(1, 'ind'), "k;\n}\n", O('t', RT), H(1, 'sp'), "x", C('t'), H(1, 'sp'), C('m'), "\nB", H(1)],
    'unwrap-start-tag-line-has-inner-element': ["A\n", O('m', RX + ' unwrap-block'), H(1, 'sp'), O('t', RT), "x", C('t'), "\nif {\n", H(1, 'ind'), "k;\n}\n", C('m'), "\nB", H(1)],
    # an unclosed registered tag inside a closed element whose (unregistered) name merely ends with the registered name
    'unclosed-ready-in-suffix-named': [H(1), O('xm'), H(1, 'ws'), O('m', RX), "q", H(1, 'ws'), C('xm'), H(1), "\n", O('not-t'), O('t', RT), "r", C('not-t'), "\n"],
    # malformed tags are text: a quote or '=' directly after a closing quote, a value-less '='
    'malformed-second-value': ["A", H(1, 'ws'), ('x', "t to='2999-01-01 00:00:00'='2001-01-01 00:00:00'"), "q", C('t'), H(1, 'ws'), ('x', "m name='n'='x'"), "r", C('m'), "B"],
    'malformed-stray-quote': ["A", H(1, 'ws'), ('x', "t to='2999-01-01 00:00:00'' c='2001-01-01 00:00:00'"), "q", C('t'), H(1, 'ws'), ('x', "m name=\"n\"\" name='x'"), "r", C('m'), "B"],
    'inline-at-line-end-after-nonascii': ["first\n", H(2, 'ind'), H(3, 'nb'), H(1, 'sp'), O('m', RX), "old", C('m'), "\nlast\n"],
    'multi-line-tag-skip': ["A\n", O('t', RT + "\nskip"), "\nq\n", C('t'), "\n", H(1, 'ws'), O('m', RX + "\nunwrap-block"), "\n{\n  k", H(1, 'txt'), "\n}\n", C('m'), "\nB\n"],
    'head-wrapper-child-plus-inner-ready': ["A\n", O('m', RX + ' unwrap-block'), "\nif (f) { ", O('t', RT), "c", C('t'), "\n", H(1, 'ind'), "k;\n", O('t', RT), "\nq;\n", C('t'), "\n", H(1, 'ind'), O('m', PN), "\n", O('t', RT), "w", C('t'), "\n", C('m'), "\n}\n", C('m'), "\nB", H(1)],
    'ends-with-close-tag': [H(1), "A\n", O('m', RX), "\nq", H(1), "\n", C('m')],
    'inline-then-text-then-blank-line': ["a ", O('m', RX), "q", C('m'), H(1, 'sp'), "b", H(1, 'txt'), "\n", H(1, 'ind'), "\nc\n", H(1, 'ws'), "d"],
    'blank-line-then-text-then-inline': ["a\n", H(1, 'ind'), "\nb", H(1, 'txt'), H(1, 'sp'), O('m', RX), "q", C('m'), " c\n", H(1, 'ind'), "\nd\n"],
    'inline-between-blank-lines-with-text': ["a\n\n", H(1, 'ind'), "x", H(1, 'sp'), O('t', RT), "q", C('t'), H(1, 'sp'), "y", H(1, 'ind'), "\n\nz\n"],
    'unwrap-nested-ready-then-indented-blank-line': ["A\n", O('t', RT + ' unwrap-block'), "\n{\n  first();\n", H(2, 'ind'), "\n  ", O('m', RX), "\n  old();\n  ", C('m'), "\n", H(2, 'ind'), "\n", H(1, 'ind'), " second();\n\tafter();\n}\n", C('t'), "\nB\n"],
    'code-before-unwrap-tag-child-ends-midline': ["top\n    foo(); ", O('m', RX + ' unwrap-block'), "\n    if (x) { ", O('t', RT), "\n      junk\n    ", C('t'), H(1, 'nb'), H(2, 'ind'), "b", H(1, 'ind'), "c\n        body\n    }\n    ", C('m'), "\ntail\n"],
    'text-after-wrapper-child-on-head-line': ["a\n", O('t', RT + ' unwrap-block'), "\n{ ", O('m', RX), "\n foo\n ", C('m'), "a", H(2, 'ind'), "b", H(1, 'txt'), "\n  bar\n}\n", C('t'), "\nB\n"],
    'child-on-both-wrapper-lines': ["A\n", O('m', RX + ' unwrap-block'), "\n", H(1, 'ind'), O('t', RT), H(1, 'txt'), "\nk", H(1, 'txt'), "\n", C('t'), H(1, 'ind'), "\n", C('m'), "\nB", H(1), "\n"],
    'unwrap-ragged': ["A\n", H(1, 'ind'), O('m', RX + ' unwrap-block'), "\n{\n    ", H(1, 'nb'), "a;\n  ", H(2, 'nb'), "b;\n", H(2, 'nb'), "c;\n", H(1, 'ind'), H(1, 'nb'), "d;\n}\n", C('m'), "\nB\n"],
    'unwrap-empty-line-between': [H(1), "A\n", O('m', RX + ' unwrap-block'), H(1, 'ind'), "\n", H(2, 'ind'), "\n", H(1, 'ind'), C('m'), "\nB", H(1)],
    # wrapper lines that are completely empty (Markdown style)
    'unwrap-empty-wrapper-lines': ["A\n", H(1, 'ind'), O('m', RX + ' unwrap-block'), "\n", H(1, 'ind'), "\n  k;", H(1, 'txt'), "\n  j;\n", H(1, 'ind'), "\n", C('m'), "\nB\n"],
    # a quoted value holding the other quote character and, behind it, words that are keywords when read as attributes
    'other-quote-then-keywords-in-value': ["A\n", O('t', RT + " c=\"don't skip this\""), "\nq\n", C('t'), "\n", H(1, 'ws'),
                                           O('m', RX + " c='see \"docs\" - no unwrap-block here'"), "\n{\nk\n}\n", C('m'), "\nB", H(1), "\n"],
    'to-inside-other-quoted-value': ["A\n", O('t', "note='was \"beta\" to=\"2001-01-01 00:00:00\" in the old markup'"), "\nq\n", C('t'), H(1, 'ws'),
                                     O('t', "c=\"it's\" to='2001-01-01 00:00:00' d='x'"), "r", C('t'), "\nB", H(1), "\n"],
    # overlapping regions: <u> is opened inside <a> and never closed there, a stray </u> follows, then ordinary elements
    'overlap-then-stray-close-then-ready': ["A", O('a'), H(1, 'ws'), O('u'), "p", C('a'), H(1, 'ws'), "q", C('u'), "\n", O('m', RX), "r", C('m'), "\n",
                                            O('t', PT), "\n", O('t', RT), "w", C('t'), "\n", C('t'), "B", H(1)],
    # the file ends inside the end delimiter of a closing tag (keep = bytes of the end delimiter that are present)
    'eof-inside-end-delimiter-1': ["A\n", O('t', RT), "\nq", H(1, 'txt'), "\n", ('pc', 't', 1)],
    'eof-inside-end-delimiter-2': ["A\n", O('m', RX), H(1, 'ws'), "q\n", ('pc', 'm', 2)],
    'eof-inside-end-delimiter-4': ["A\n", O('t', RT), "\nq", H(1, 'txt'), "\n", ('pc', 't', 4)],
    # an indented unwrap block whose body has a line starting at the left margin with blanks inside its text (columns of the dedent)
    'unwrap-body-line-left-of-tag-with-inner-blanks': ["A\n  ", O('m', RX + ' unwrap-block'), "\n  {\n    k;\n", H(1, 'ind'), "x", H(3, 'ind'), "= 1;\n    j;\n  }\n  ", C('m'), "\nB\n"],
    'children-on-both-wrapper-lines-and-between': ["A\n", O('m', RX + ' unwrap-block'), "\nif (x) { ", O('t', RT), "a", C('t'), "\n", H(1, 'ind'), "k;\n", O('t', RT), "\nold;\n", C('t'),
                                                   "\n} ", O('m', RX), "b", C('m'), H(1, 'sp'), "\n", C('m'), "\nB\n"],
    'pending-children-on-both-wrapper-lines-and-between': ["A\n", O('m', PN + ' unwrap-block'), "\nif (x) { ", O('t', PT), "a", C('t'), "\n", H(1, 'ind'), "k;\n", O('t', PT), "\nold;\n", C('t'),
                                                           "\n} ", O('m', PN), "b", C('m'), H(1, 'sp'), "\n", C('m'), "\nB\n", O('t', RT), "r", C('t'), "\n"],
    # flags spelled with a value (XML style): skip='true' still protects the element, unwrap-block="1" still selects the strategy
    'flags-with-values': ["A\n", O('t', RT + " skip='true'"), "\nq\n", C('t'), "\n", H(1, 'ws'), O('m', RX + ' unwrap-block="1"'), "\n{\n  k;", H(1, 'txt'), "\n}\n", C('m'), "\n",
                          O('m', "skip=\"skip\" " + RX), "r", C('m'), "\nB", H(1), "\n"],
    # an indented unwrap block with a ready child alone on a deeper line and a blanks-only line right behind it
    'indented-unwrap-child-then-blanks-only-line': ["A\n  ", O('m', RX + ' unwrap-block'), "\n  {\n      a();\n      ", O('t', RT), "\n      old();\n      ", C('t'), "\n    ", H(2, 'ind'), "\n      b();\n  }\n  ",
                                                    C('m'), "\nB\n"],
    # two crossing pairs of opposite orientation, then ordinary ready elements
    'two-opposite-crossings-then-ready': ["A", O('t', RT), "a", O('m', PN), "b", C('t'), "c", C('m'), "\n", O('m', PN), "d", O('t', PT), "e", C('m'), "f", C('t'), "\n", O('t', RT), "g", C('t'), H(1, 'ws'),
                                          O('m', RX), "h", C('m'), "B", H(1)],
    # characters that some tools count as line terminators are ordinary text here: U+2028, U+2029, U+0085, vertical tab, form feed
    'unicode-line-separators-are-text': ["A\u2028x\n", H(1, 'ind'), O('m', RX), "\nq\u2029r\x0b\n\x0cs\u0085\n", C('m'), "\n", H(1, 'txt'), "B\u2028\n", O('t', RT), "\nz\n", C('t'), "\n"],
    # exactly the two wrapper lines between the tags (an empty block): still unwrapped
    'unwrap-two-lines-between': ["A\n", H(1, 'ind'), O('m', RX + ' unwrap-block'), "\nif (x) {", H(1, 'txt'), "\n", H(1, 'ind'), "}\n", C('m'), "\nB", H(1), "\n"],
    # the deciding attribute given twice: the first one decides (a valueless / pending first one keeps the element)
    'duplicate-deciding-attributes': ["A\n", O('t', "to " + RT), "\nq\n", C('t'), "\n", O('t', PT + " " + RT), "r", C('t'), H(1, 'ws'), O('m', PN + " " + RX), "s", C('m'), "\n",
                                      O('m', "name " + RX), "u", C('m'), "\n", O('m', RX + " " + PN), "v", C('m'), "\nB", H(1), "\n"],
    'duplicate-deciding-attributes-none-ready': ["A\n", O('t', "to " + RT), "\nq\n", C('t'), "\n", O('t', PT + " " + RT), "r", C('t'), H(1, 'ws'), O('m', PN + " " + RX), "s", C('m'), "\n",
                                                 O('m', "name " + RX), "u", C('m'), "\nB", H(1), "\n"],
    # unquoted values are outside the tag grammar (malformed tag = text); a line break behind one / between '=' and the quote does not rescue the tag
    'malformed-unquoted-value-then-line-break': ["A\n", ('x', "t owner=team-a\nto='2001-01-01 00:00:00'"), "\nq\n", C('t'), "\n", H(1, 'ws'), ('x', "m ticket=1234\nname='x'"), "r", C('m'), "\n",
                                                 ('x', "t to=\n'2001-01-01 00:00:00'"), "s", C('t'), "\nB", H(1), "\n"],
    # two touching removals, then an unwrapped block, then kept lines with deeper indentation, then one more removal
    'touching-then-unwrap-then-removal': ["A ", O('t', RT), "x", C('t'), O('m', RX), "y", C('m'), "\n", O('m', RX + ' unwrap-block'), "\n{\n  k;\n}\n", C('m'), "\nconst items = [\n    first,\n", H(1, 'ind'),
                                          "    second,\n  ];\n", O('t', RT), "\nz\n", C('t'), "\nB", H(1), "\n"],
    'unwrap-adjacent-lines': [H(1), "A ", O('m', RX + ' unwrap-block'), H(1, 'ind'), "\n", H(1, 'ind'), C('m'), " B", H(1)],
}

# junk documents for C04: with an empty target set and a current time before every `to`, nothing can be ready
# whatever the holes turn the structure into
JUNK = {
    'junk-tags': [H(3, 'any'), O('m', RX), H(2, 'any'), C('m'), H(2, 'any')],
    'junk-time': [H(2, 'any'), O('t', RT), "\n", H(2, 'any'), "\n", C('t'), H(2, 'any')],
    'junk-stray': ["a", H(2, 'any'), "> <", H(2, 'any'), C('m'), H(2, 'any'), O('m', RX), H(1, 'any')],
    'junk-unwrap': ["A\n", O('m', RX + ' unwrap-block'), "\n{\n", H(2, 'any'), "\n}\n", C('m'), H(2, 'any')],
    'junk-ws': [H(3, 'ws'), O('m', PN), H(3, 'ws'), C('m'), H(3, 'ws')],
    'junk-free': [H(7, 'any')],
    'junk-blank-lines': ["a\n", H(3, 'ws'), "\n", O('u'), H(2, 'ws'), "\n\n", C('u'), H(2, 'ws'), "\nb"],
}
JUNK_CFG = dict(targets=[], now=0)


def c14_segments(n, mask, ready, src):
    """maximal stretches without removed bytes; inside an unwrapped body: per line"""
    bodies = []
    for e in ready:
        if e['unwrap']:
            bodies.append((e['extents'][0][1], e['extents'][1][0]))
    segs = []
    i = 0
    while i < n:
        if mask[i]:
            i += 1
            continue
        j = i
        while j < n and not mask[j]:
            j += 1
        if any(s <= i and j <= e for s, e in bodies):
            cur = []
            for k in range(i, j):
                if isinstance(src[k], int) and src[k] == 10:
                    if cur:
                        segs.append(cur)
                    cur = []
                else:
                    cur.append(k)
            if cur:
                segs.append(cur)
        else:
            segs.append(list(range(i, j)))
        i = j
    return segs


@harness('pipe_clean', covers=['ready-element', 'nothing-ready', 'unwrap-ready', 'nested-ready-in-pending', 'multibyte-at-seam'])
def pipe_clean(ctx, p):
    ds, de = list(p.get('ds', '<').encode()), list(p.get('de', '>').encode())
    cfg = cfg_from(p)
    src, parts = render(ctx, p['tpl'], ds, de)
    n = len(src)
    junk = p.get('junk', False)
    if junk:
        ready, pending, allel = [], [], []
    else:
        ready, pending, allel = evaluate(src, parts, cfg)
    mask = extent_mask(n, ready)
    if ready:
        ctx.cover('ready-element')
        if any(e['unwrap'] for e in ready):
            ctx.cover('unwrap-ready')
        for e in ready:
            s0 = e['extents'][0][0]
            if s0 > 0:
                cover_if(ctx, 'multibyte-at-seam', uge(src[s0 - 1], 0x80))
    else:
        ctx.cover('nothing-ready')
    ready_opens = [r['open'] for r in ready]
    for a_ in allel:
        if a_['registered'] and not a_['cond'] and any(ch['open'] is ro for ch in a_['children'] for ro in ready_opens):
            ctx.cover('nested-ready-in-pending')
    prop = p['prop']
    try:
        out = ctx.impl.clean(src, ds, de, cfg)
    except ImplPanic:
        if prop == 'C01':
            ctx.check(False, 'clean panics', 'panic')
        raise
    blank = lambda i: is_blank(src[i])
    if prop == 'C01':
        ctx.check(True, 'clean returns normally')
    elif prop == 'C02':
        okv = align(list(range(n)), src, out, lambda i: True if mask[i] else blank(i))
        ctx.check(okv, 'output is not the input minus ready extents and blanks: a non-blank byte outside every ready extent was deleted, '
                       'or the output is not a subsequence of the input', 'over-removal')
    elif prop == 'C03':
        pos = [i for i in range(n) if not mask[i]]
        okv = align(pos, src, out, blank)
        ctx.check(okv, 'non-blank text of the output differs from the input minus the ready extents (a byte of a ready element survives, '
                       'or text outside is lost)', 'under-or-over-removal')
    elif prop == 'C04':
        if not ready:
            ctx.check(len(out) == n and b_and(same(a, b) for a, b in zip(src, out)), 'nothing is ready but the output differs from the input',
                      'changed-without-removal')
    elif prop == 'C14':
        pos = [i for i in range(n) if not mask[i]]
        interior = {}
        for seg in c14_segments(n, mask, ready, src):
            nb = [b_not(blank(k)) for k in seg]
            for x, k in enumerate(seg):
                interior[k] = b_and([b_or(nb[:x]), b_or(nb[x + 1:])])
        okv = align(pos, src, out, lambda i: b_and([blank(i), b_not(interior.get(i, False))]))
        ctx.check(okv, 'a blank strictly inside a surviving stretch (between its first and last non-blank byte) was deleted, or text was lost',
                  'interior-whitespace-changed')
    else:
        raise KeyError(prop)


def struct_jobs(prop, tier, seed, names=None, budget=None, max_active=None, limit_per_tpl=None):
    rnd = random.Random(seed * 1000003 + 7)
    jobs = []
    budget = budget or (4 if tier == 'quick' else 7)
    max_active = max_active or (2 if tier == 'quick' else 4)
    limit = limit_per_tpl or (4 if tier == 'quick' else 80)
    for name, tpl in STRUCT.items():
        if names and name not in names:
            continue
        for sizes in variants(tpl, budget, max_active, rnd, limit):
            if sum(sizes) < min(budget, 2):
                continue
            jobs.append(dict(harness='pipe_clean', label=f'{name} holes={sizes}', params=dict(tpl=instantiate(tpl, sizes), prop=prop)))
    # the same documents in other spellings (README-style and multi-byte delimiters); C18 ties all spellings together relationally
    from props_front import POOL
    other = [POOL[1], POOL[2], POOL[7], POOL[8]] if tier == 'quick' else POOL[1:]
    names_ = sorted(STRUCT) if not names else sorted(names)
    rnd2 = random.Random(seed * 7 + 3)
    picks = rnd2.sample(names_, min(len(names_), 10 if tier == 'quick' else 30))
    for k, name in enumerate(picks):
        tpl = STRUCT[name]
        vs = variants(tpl, budget, max_active, rnd2, 1)
        ds_, de_ = other[k % len(other)]
        for sizes in vs[:1]:
            jobs.append(dict(harness='pipe_clean', label=f'{name} holes={sizes} ds={ds_!r} de={de_!r}',
                             params=dict(tpl=instantiate(tpl, sizes), prop=prop, ds=ds_, de=de_)))
    for name, (ds_, de_) in FORCED_SPELLING.items():
        if names and name not in names:
            continue
        for sizes in variants(STRUCT[name], budget, max_active, rnd2, 2):
            jobs.append(dict(harness='pipe_clean', label=f'{name} holes={sizes} ds={ds_!r} de={de_!r}',
                             params=dict(tpl=instantiate(STRUCT[name], sizes), prop=prop, ds=ds_, de=de_)))
    return jobs


# ---------------------------------------------------------------- template transformers
# Every structural template can be bent systematically into the corner shapes that hand-written cases tend to miss: the document
# ends with the last tag / starts with the first tag, the literal text is multi-byte, everything sits inside an element that removes
# nothing on its own account, every tag carries quoted values holding the other quote character, lines end in CR LF.
_MB = str.maketrans({'q': '語', 'k': 'é', 'x': 'ж', 'y': 'ü', 'A': 'İ', 'B': 'ẞ', 'K': '\u212a', 'a': 'à', 'b': 'þ', 'c': 'ç', 'o': 'ö', 'f': 'ƒ', 'p': 'π', 'r': 'я', 'z': 'ž', 'j': 'ĳ'})


def _is_tag(p_):
    return isinstance(p_, tuple) and p_[0] in ('o', 'c', 'x', 'pc')


def tf_eof(tpl):
    idx = [i for i, p_ in enumerate(tpl) if _is_tag(p_)]
    return tpl[:idx[-1] + 1] if idx else None


def tf_bof(tpl):
    idx = [i for i, p_ in enumerate(tpl) if _is_tag(p_)]
    return tpl[idx[0]:] if idx else None


def tf_multibyte(tpl):
    return [p_.translate(_MB) if isinstance(p_, str) else p_ for p_ in tpl]


def tf_wrap(kind):
    wt, wa = {'skip': ('m', SK), 'pending': ('t', PT), 'unregistered': ('u', "k='v'"), 'ready-skip': ('t', RT + ' skip')}[kind]

    def f(tpl):
        return [O(wt, wa), "\n"] + list(tpl) + ["\n", C(wt), "\n"]
    return f


def tf_attr_noise(tpl):
    out = []
    for p_ in tpl:
        if isinstance(p_, tuple) and p_[0] == 'o':
            attrs = p_[2] if len(p_) > 2 else ''
            out.append(('o', p_[1], ("d='x\"y' " + attrs + " c=\"it's\"").strip()))
        else:
            out.append(p_)
    return out


def tf_crlf(tpl):
    return [p_.replace("\n", "\r\n") if isinstance(p_, str) else p_ for p_ in tpl]


def tf_bom(tpl):
    return ["\ufeff"] + list(tpl)


TRANSFORMERS = {'byte-order-mark-first': tf_bom, 'byte-order-mark-first+starts-with-first-tag': lambda t: tf_bom(tf_bof(t) or t), 'ends-with-last-tag': tf_eof, 'starts-with-first-tag': tf_bof, 'multi-byte-text': tf_multibyte, 'inside-skip': tf_wrap('skip'), 'inside-pending': tf_wrap('pending'),
                'inside-unregistered': tf_wrap('unregistered'), 'inside-ready-skip': tf_wrap('ready-skip'), 'quoted-attribute-noise': tf_attr_noise,
                'cr-lf-line-ends': tf_crlf, 'cr-lf-line-ends+ends-with-last-tag': lambda t: tf_eof(tf_crlf(t)),
                'multi-byte-text+ends-with-last-tag': lambda t: tf_eof(tf_multibyte(t)), 'multi-byte-text+starts-with-first-tag': lambda t: tf_bof(tf_multibyte(t))}


def transformed_jobs(prop, tier, seed, harness='pipe_clean', extra_params=None):
    """STRUCT templates x TRANSFORMERS: a seeded sample in the quick tier (another VERIF_SEED, another sample), all of them in the thorough tier"""
    rnd = random.Random(seed * 7919 + 13)
    combos = [(n, t) for n in sorted(STRUCT) for t in sorted(TRANSFORMERS) if n not in FORCED_SPELLING]
    if tier == 'quick':
        combos = rnd.sample(combos, 48)
    jobs = []
    for n, t in combos:
        tpl = TRANSFORMERS[t](STRUCT[n])
        if not tpl:
            continue
        vs = variants(tpl, 3 if tier == 'quick' else 4, 2, rnd, 1 if tier == 'quick' else 3)
        for sizes in vs:
            params = dict(tpl=instantiate(tpl, sizes), prop=prop)
            params.update(extra_params or {})
            jobs.append(dict(harness=harness, label=f'{n} [{t}] holes={sizes}', params=params))
    return jobs


# ---------------------------------------------------------------- large fixed documents (thresholds: nesting depth, element count, buffer sizes)
def scale_templates():
    """concrete documents far beyond the hole templates in one dimension each; one or two small holes keep the solver in the loop"""
    T = {}
    # 300 pending elements nested in a ready unwrap block, a pending element of the outer tag name innermost
    deep = ["A\n", O('t', RT + ' unwrap-block'), "\n{\n"]
    for k in range(300):
        deep += [O('m', PN), "\n"]
    deep += ["  ", O('t', PT), "\n  keep();\n  ", C('t'), "\n", H(1, 'txt'), "tail();\n"]
    for k in range(300):
        deep += [C('m'), "\n"]
    deep += ["}\n", C('t'), "\nB\n"]
    T['scale-nesting-depth-300'] = deep
    # the same depth with ready elements only (every level removable)
    deep2 = ["A\n"]
    for k in range(140):
        deep2 += [O('m', RX), "x"]
    deep2 += [H(1, 'txt')]
    for k in range(140):
        deep2 += [C('m')]
    T['scale-ready-nesting-depth-140'] = deep2 + ["\nB\n"]
    # 300 sibling elements, ready and pending alternating, block and inline
    many = ["A\n"]
    for k in range(300):
        many += [O('t', RT if k % 2 == 0 else PT), ("\nx%d\n" % k) if k % 3 == 0 else ("y%d" % k), C('t'), "\n" if k % 5 else " "]
    T['scale-300-siblings'] = many + [H(1, 'txt'), "B\n"]
    # a 20 KB document: multi-byte lines, elements placed so that byte offsets 4096, 8192 and 16384 fall inside tags / characters
    big = []
    line = "あいうえおかきくけこさしすせそたちつてとなにぬねのはひふへほ\n"   # 91 bytes
    nbytes = 0
    k = 0
    while nbytes < 20000:
        if k % 12 == 5:
            big += [O('m', "name='x' c='" + "é" * 10 + "'"), "\nremoved " + "語" * 8 + "\n", C('m'), "\n"]
            nbytes += 90
        elif k % 12 == 9:
            big += [O('t', PT), "pending", C('t'), " "]
            nbytes += 60
        else:
            big += [line]
            nbytes += 91
        k += 1
    T['scale-20KB-multibyte'] = ["A", H(1, 'txt'), "\n"] + big + ["B\n"]
    # one very long line (9000 characters) with inline elements
    T['scale-long-line'] = ["x" * 4090, O('m', RX), "q" * 10, C('m'), "é" * 2050, O('t', RT), "r", C('t'), H(1, 'txt'), "y" * 3000, "\n"]
    return T


def scale_jobs(prop, tier, harness='pipe_clean', extra_params=None):
    jobs = []
    names = ['scale-nesting-depth-300', 'scale-long-line'] if tier == 'quick' else None
    for name, tpl in scale_templates().items():
        if names and name not in names:
            continue
        params = dict(tpl=instantiate(tpl, [1]), prop=prop)
        params.update(extra_params or {})
        jobs.append(dict(harness=harness, label=f'{name} holes=[1]', params=params))
    return jobs


# templates that only make sense with multi-character delimiters
FORCED_SPELLING = {'eof-inside-end-delimiter-1': ('<!-- <', '> -->'), 'eof-inside-end-delimiter-2': ('/* <', '> */'), 'eof-inside-end-delimiter-4': ('<!-- <', '> -->')}


def pending_cfg_jobs(tier):
    """nothing is ready only because of the configuration: deadline not reached at the configured offset, other target set, other tag names"""
    import datetime
    jobs = []
    doc = [H(1, 'ws'), "A\n", H(2, 'ind'), O('t', "to='2024-01-01 00:00:00'"), "\nq\n", C('t'), "\n", H(2, 'ws'), O('m', "name='x'"), "r", C('m'), H(1, 'ws'), "B\n"]
    t0 = 1704067200  # 2024-01-01T00:00:00Z
    cases = [('-09:00', t0 + 5 * 3600), ('-09:00', t0 + 9 * 3600 - 1), ('-0330', t0 + 3 * 3600), ('+00:00', t0 - 1), ('+09:00', t0 - 9 * 3600 - 1), ('+14:00', t0 - 14 * 3600 - 1),
             ('-12:00', t0 + 12 * 3600 - 1), ('bogus', t0 + 10 ** 8)]
    for off, now in cases:
        for tg in ([], ['X'], ['xx']):
            for sizes in ([1, 2, 2, 1], [0, 0, 2, 0]) if tier != 'quick' else ([1, 2, 0, 1],):
                jobs.append(dict(harness='pipe_clean', label=f'pending by configuration offset={off} now-to={now - t0:+d}s targets={tg} holes={sizes}',
                                 params=dict(tpl=instantiate(doc, sizes), prop='C04', cfg=dict(tl_offset=list(off.encode()), now=now, targets=[list(x.encode()) for x in tg]))))
    # markers without a usable name are never targeted - also when the empty string is a target (a blank line in a target file)
    doc2 = ["A\n", O('m'), "\nq\n", C('m'), "\n", H(1, 'ws'), O('m', 'name'), "r", C('m'), H(1, 'ws'), O('m', "id='x'"), "s", C('m'), "\n", O('m', "name='n'"), "t", C('m'), "B\n"]
    for tg in ([''], ['', 'x'], ['name'], ['m']):
        jobs.append(dict(harness='pipe_clean', label=f'markers without a name value, targets={tg}', params=dict(tpl=instantiate(doc2, [1, 1]), prop='C04',
                                                                                                              cfg=dict(targets=[list(x.encode()) for x in tg]))))
    return jobs


def junk_jobs(prop, tier, seed):
    rnd = random.Random(seed * 1000003 + 11)
    jobs = []
    budget = 5 if tier == 'quick' else 7
    for name, tpl in JUNK.items():
        for sizes in variants(tpl, budget, 3, rnd, 5 if tier == 'quick' else 40):
            if sum(sizes) < min(budget, 3):
                continue
            jobs.append(dict(harness='pipe_clean', label=f'{name} holes={sizes}', params=dict(tpl=instantiate(tpl, sizes), prop=prop, junk=True, cfg=JUNK_CFG)))
    return jobs


# ---------------------------------------------------------------- line-level helpers
def split_lines(bs):
    """split at concrete line breaks (holes used in line-level templates never contain '\\n')"""
    lines, cur = [], []
    for b in bs:
        if isinstance(b, int) and b == 10:
            lines.append(cur)
            cur = []
        else:
            cur.append(b)
    lines.append(cur)
    return lines


class Blanks:
    """which bytes are known blank / known non-blank: concrete values, or membership of a hole of class ind / nb"""

    def __init__(self, ctx, src, parts):
        self.blank_ids = set()
        self.nonblank_ids = set()
        for p in parts:
            if p['kind'] == 'hole':
                for b in src[p['start']:p['end']]:
                    if is_sym(b):
                        if p['cls'] in ('ind', 'sp'):
                            self.blank_ids.add(b.get_id())
                        elif p['cls'] == 'nb':
                            self.nonblank_ids.add(b.get_id())

    def is_blank(self, b):
        if isinstance(b, int):
            return b in (32, 9)
        i = b.get_id()
        if i in self.blank_ids:
            return True
        if i in self.nonblank_ids:
            return False
        raise ValueError('blankness of this byte is not fixed by its hole class')

    def strip(self, line):
        s, e = 0, len(line)
        while s < e and self.is_blank(line[s]):
            s += 1
        while e > s and self.is_blank(line[e - 1]):
            e -= 1
        return line[s:e]

    def indent(self, line):
        s = 0
        while s < len(line) and self.is_blank(line[s]):
            s += 1
        return s

    def nonblank_lines(self, bs):
        return [l for l in (self.strip(x) for x in split_lines(bs)) if l]


def lines_equal(a, b):
    if len(a) != len(b):
        return False
    return b_and(len(x) == len(y) and b_and(same(p, q) for p, q in zip(x, y)) for x, y in zip(a, b))


def show_lines(ls):
    return [''.join(chr(b) if isinstance(b, int) and 32 <= b < 127 else '?' for b in l) for l in ls]


def unwrap_doc(p):
    """block document around one unwrap element with k lines between its tags"""
    k = p['k']
    hs = p['holes']  # dict slot -> size
    g = lambda name, cls: H(hs.get(name, 0), cls)
    tpl = []
    if p.get('bom'):
        tpl += ["\ufeff"]
    if p.get('pre', 1):
        tpl += [g('pre_i', 'ind'), "A", g('pre_t', 'nb'), "\n"]
    if p.get('prelude'):   # crossing elements and a stray closing tag in front: <a> <u> </a> </a>  (all unregistered names)
        tpl += [O('a'), "\n", O('u'), "\nc\n", C('a'), "\n", C('a'), "\n"]
    for wt, wa in p.get('wrap', []):   # enclosing elements (skipped / pending / unregistered), each tag alone on its line
        tpl += [g('wrap_i', 'ind'), O(wt, wa), "\n"]
    tpl += [g('tag_i', 'ind'), O(p.get('tag', 'm'), p.get('attrs', RX + ' unwrap-block')), "\n"]
    for j in range(k):
        kind = p.get('body', {}).get(str(j), 'code')
        if kind == 'blank':
            tpl += [g(f'b{j}_i', 'ind'), "\n"]
        elif kind == 'ready':     # a nested ready default-strategy element occupying three inner lines
            tpl += [g(f'b{j}_i', 'ind'), O('t', RT), "\n", g(f'b{j}_t', 'nb'), "z\n", g(f'b{j}_j', 'ind'), C('t'), "\n"]
        elif kind == 'pending':
            tpl += [g(f'b{j}_i', 'ind'), O('t', PT), "\n", g(f'b{j}_t', 'nb'), "z\n", g(f'b{j}_j', 'ind'), C('t'), "\n"]
        else:
            tpl += [g(f'b{j}_i', 'ind'), g(f'b{j}_s', 'nb'), "L%d" % j, g(f'b{j}_t', 'nb'), "\n"]
    tpl += [g('ctag_i', 'ind'), C(p.get('tag', 'm'))]
    for wt, wa in reversed(p.get('wrap', [])):
        tpl += ["\n", g('wrap_i', 'ind'), C(wt)]
    if p.get('post', 1):
        tpl += ["\n", g('post_i', 'ind'), "B", g('post_t', 'nb')]
    if p.get('final_nl', 1):
        tpl += ["\n"]
    return tpl


@harness('c11_unwrap', covers=['exactly-two-lines-between', 'fewer-than-two-lines', 'three-or-more-lines', 'nested-ready-inner'])
def c11_unwrap(ctx, p):
    ds, de = [60], [62]
    cfg = cfg_from(p)
    tpl = unwrap_doc(p)
    src, parts = render(ctx, tpl, ds, de)
    B = Blanks(ctx, src, parts)
    ready, pending, allel = evaluate(src, parts, cfg)
    # k counts *lines* between the tag lines (a nested 3-line element contributes 3)
    nw = len(p.get('wrap', []))
    o = [x for x in parts if x['kind'] == 'open'][nw + (2 if p.get('prelude') else 0)]
    c = [x for x in parts if x['kind'] == 'close'][-1 - nw]
    nlines = sum(1 for b in src[o['end']:c['start']] if isinstance(b, int) and b == 10) - 1
    ctx.cover('exactly-two-lines-between' if nlines == 2 else ('fewer-than-two-lines' if nlines < 2 else 'three-or-more-lines'))
    if any(v == 'ready' for v in p.get('body', {}).values()):
        ctx.cover('nested-ready-inner')
    out = ctx.impl.clean(src, ds, de, cfg)
    mask = extent_mask(len(src), ready)
    if nlines < 2:
        # left completely untouched, tags included (nested ready elements are still removed on their own account)
        if not ready:
            ctx.check(len(out) == len(src) and b_and(same(a, b) for a, b in zip(src, out)),
                      f'unwrap element with {nlines} line(s) between its tags must be left untouched', 'unwrap-with-short-body-changed')
        return
    expected = B.nonblank_lines([b if not mask[i] else 10 for i, b in enumerate(src)])
    got = B.nonblank_lines(out)
    ctx.check(lines_equal(got, expected), f'surviving non-blank lines {show_lines(got)} != input minus the four unwrap lines {show_lines(expected)}',
              (lambda: 'two-line-body-not-unwrapped' if nlines == 2 and len(got) > len(expected) else 'unwrap-lines-mismatch'))


def c11_jobs(tier, seed):
    rnd = random.Random(seed + 5)
    jobs = []
    kmax = 4 if tier == 'quick' else 6
    hole_sets = [dict(tag_i=2, ctag_i=1, b0_i=2), dict(b0_t=2, b1_t=1), dict(pre_t=2, post_i=2), dict(b1_i=2, b2_i=2, b0_i=1), dict(b1_i=2, b2_t=1), dict(tag_i=1, b1_i=3, b2_i=1, b3_t=1), dict(b1_i=2, b1_s=3), dict(b1_i=2, b2_s=2, b2_i=1)]
    if tier != 'quick':
        hole_sets += [dict(tag_i=2, b0_i=2, b1_i=2, b2_i=2), dict(tag_i=1, ctag_i=2, b1_t=2, b2_i=2), dict(pre_i=2, tag_i=2, ctag_i=2, post_i=2),
                      dict(b0_i=3, b1_i=3, b2_t=2)]
    for k in range(0, kmax + 1):
        for hs in hole_sets:
            for pre, post in ((1, 1), (0, 1), (1, 0)):
                if tier == 'quick' and (pre, post) != (1, 1) and k not in (2, 3):
                    continue
                jobs.append(dict(harness='c11_unwrap', label=f'unwrap k={k} pre={pre} post={post} holes={hs}',
                                 params=dict(k=k, pre=pre, post=post, holes=hs)))
    for k, body in [(3, {'1': 'ready'}), (3, {'1': 'pending'}), (4, {'1': 'blank', '2': 'ready'}), (2, {'0': 'blank'}), (3, {'0': 'blank', '2': 'blank'}),
                    (4, {'2': 'blank'})]:
        for hs in hole_sets[:3]:
            jobs.append(dict(harness='c11_unwrap', label=f'unwrap k={k} body={body} holes={hs}', params=dict(k=k, body=body, holes=hs)))
    for k in (2, 3, 4):   # the closing tag is the very last thing in the document, multi-byte text before it
        jobs.append(dict(harness='c11_unwrap', label=f'unwrap k={k} closing tag at end of input, multi-byte text', params=dict(k=k, post=0, final_nl=0, holes=dict(b1_t=3, pre_t=3, ctag_i=1))))
        jobs.append(dict(harness='c11_unwrap', label=f'unwrap k={k} closing tag at end of input', params=dict(k=k, post=0, final_nl=0, holes=dict(b0_t=2, ctag_i=2))))
    for tag, attrs in (('t', RT + ' unwrap-block'), ('m', PN + ' unwrap-block')):
        jobs.append(dict(harness='c11_unwrap', label=f'unwrap k=3 tag={tag} {attrs}', params=dict(k=3, tag=tag, attrs=attrs, holes=hole_sets[0])))
    for k in (2, 3):   # crossing elements and a stray closing tag in front of the element; a wrapper line ending in a four-byte character
        jobs.append(dict(harness='c11_unwrap', label=f'unwrap k={k} behind crossing elements and a stray closing tag', params=dict(k=k, prelude=1, holes=dict(tag_i=1, b1_i=2))))
        jobs.append(dict(harness='c11_unwrap', label=f'unwrap k={k} behind crossing elements, inside a pending element', params=dict(k=k, prelude=1, wrap=[('t', PT)], holes=dict(b0_i=2))))
        jobs.append(dict(harness='c11_unwrap', label=f'unwrap k={k + 1} wrapper lines end in four free bytes', params=dict(k=k + 1, holes={'b0_t': 4})))
        jobs.append(dict(harness='c11_unwrap', label=f'unwrap k={k + 1} closing wrapper line ends in four free bytes', params=dict(k=k + 1, holes={f'b{k}_t': 4})))
    for hs in ({}, dict(b0_i=1), dict(tag_i=1, ctag_i=1)):   # exactly one line between the tags, and that line is empty / blank: untouched
        jobs.append(dict(harness='c11_unwrap', label=f'unwrap k=1 the only line between the tags is blank holes={hs}', params=dict(k=1, body={'0': 'blank'}, holes=hs)))
        jobs.append(dict(harness='c11_unwrap', label=f'unwrap k=1 the only line between the tags is blank, first line, holes={hs}', params=dict(k=1, pre=0, body={'0': 'blank'}, holes=hs)))
    for k in (2, 3):   # a byte order mark in front of the document; the flag written with a value
        jobs.append(dict(harness='c11_unwrap', label=f'unwrap k={k} behind a byte order mark', params=dict(k=k, bom=1, holes=dict(tag_i=1, b0_i=2))))
        for av in ("unwrap-block='true'", 'unwrap-block=""'):
            jobs.append(dict(harness='c11_unwrap', label=f'unwrap k={k} flag written {av}', params=dict(k=k, attrs=RX + ' ' + av, holes=dict(tag_i=1, b0_i=2))))
    # the unwrap element nested in skipped / pending / unregistered elements (each removes nothing on its own account)
    for wrap in ([('m', SK)], [('t', PT)], [('u', '')], [('m', SK), ('t', PT)], [('t', RT + ' skip'), ('u', "x='1'")]):
        for k in (1, 3):
            jobs.append(dict(harness='c11_unwrap', label=f'unwrap k={k} inside {wrap}', params=dict(k=k, tag='t', attrs=RT + ' unwrap-block', wrap=wrap, holes=dict(wrap_i=1, tag_i=2, b1_i=2))))
    return jobs


# ---------------------------------------------------------------- C01 (pipeline): clean / list / list_all never panic
C01_EXTRA = {
    # tags sitting on the wrapper lines of an unwrap-block (the statement names this case)
    'tag-on-wrapper-lines': ["A\n", O('m', RX + ' unwrap-block'), "\n", H(1, 'ind'), O('t', RT), H(1, 'txt'), "\nk", H(1, 'txt'), "\n", C('t'), H(1, 'ind'), "\n", C('m'), "\nB\n"],
    'tag-on-head-wrapper': ["A\n", O('m', RX + ' unwrap-block'), "\n{", O('t', RT), "\nq\n", C('t'), H(2, 'ws'), "\nk\n}\n", C('m'), H(2, 'any')],
    'tag-on-tail-wrapper': ["A\n", O('m', RX + ' unwrap-block'), "\n{\nk", H(2, 'ws'), O('t', RT), "\nq\n", C('t'), "}\n", C('m'), H(2, 'any')],
    'inline-child-in-wrapper': ["A\n", O('t', RT + ' unwrap-block'), "\nif ", O('m', RX), "c", C('m'), " {\n", H(2, 'ws'), "k\n}\n", C('t'), H(2, 'ws')],
    'text-before-unwrap-tag-and-after-wrapper-child': ["a\n", H(1, 'ind'), "x ", O('t', RT + ' unwrap-block'), "\n{ ", O('m', RX), "\n foo\n ", C('m'), H(3, 'any'), "\n  bar\n", H(1, 'ind'), "baz\n\n}\n", C('t'), "\n"],
    'wrapper-line-ends-multibyte': ["A\n", O('m', RX + ' unwrap-block'), "\nif (x) { //", H(3, 'nb'), "\n  k;\n} //", H(3, 'nb'), "\n", C('m'), "\nB\n"],
    'adjacent-then-unwrap-last': ["a ", O('m', RX), "x", C('m'), O('t', RT), "y", C('t'), H(1, 'ws'), "b\n", O('m', RX + ' unwrap-block'), "\n{\n  k;\n}\n", C('m'), H(1, 'ws')],
    'multibyte-end': [H(2, 'any'), O('m', RX), "q", C('m'), H(4, 'any')],
    'blank-tag': [H(1, 'any'), "<", H(2, 'ws'), ">", H(2, 'any'), O('m', RX), "q", C('m'), "<>", H(1, 'any')],
    'unwrap-at-start': [O('m', RX + ' unwrap-block'), "\n", H(2, 'ws'), "{\nk\n}\n", H(1, 'ws'), C('m'), H(2, 'any')],
    'unwrap-at-end': [H(2, 'any'), O('m', RX + ' unwrap-block'), "\n{\nk\n}\n", C('m')],
    'unwrap-two-children': ["A\n", O('m', RX + ' unwrap-block'), "\n{\n", O('t', RT), "\n1\n", C('t'), "\n", H(2, 'ws'), O('t', RT), "\n2\n", C('t'), "\n}\n", C('m'), "\nB"],
    # a later body line of an unwrapped block begins with arbitrary characters (multi-byte white space, if any code treats it as indentation)
    'unwrap-body-line-starts-with-any': ["A\n", O('m', RX + ' unwrap-block'), "\n{\n  a;\n", H(3, 'any'), "b;\n}\n", C('m'), "\nB\n"],
    'unwrap-body-lines-start-with-any-indented': [" A\n ", O('t', RT + ' unwrap-block'), "\n {\n", H(3, 'any'), " a;\n", H(4, 'any'), "b;\n }\n ", C('t'), "\nB\n"],
    'block-lines-start-and-end-with-any': ["A", H(3, 'any'), "\n", H(3, 'any'), O('m', RX), H(3, 'any'), "\nq\n", H(3, 'any'), C('m'), H(3, 'any'), "\n", H(3, 'any'), "B\n"],
    'pending-unwrap-with-ready-wrapper-child': ["A\n", O('m', PN + ' unwrap-block'), "\n", O('t', RT), "\nq\n", C('t'), "\nk\n}\n", C('m'), H(2, 'ws')],
}


@harness('c01_pipe', covers=['ready-element', 'tag-on-wrapper-line'])
def c01_pipe(ctx, p):
    ds, de = list(p.get('ds', '<').encode()), list(p.get('de', '>').encode())
    cfg = cfg_from(p)
    src, parts = render(ctx, p['tpl'], ds, de)
    if any(q['kind'] == 'open' for q in parts):
        ctx.cover('ready-element')
    if p.get('wrapper'):
        ctx.cover('tag-on-wrapper-line')
    no_panic(ctx, lambda: ctx.impl.clean(src, ds, de, cfg), 'clean')
    for al in (False, True):
        for fmt in ('json', 'pretty'):
            no_panic(ctx, lambda: ctx.impl.list(src, ds, de, cfg, all=al, format=fmt), f"list{'_all' if al else ''}({fmt})")


def c01_pipe_jobs(tier, seed):
    rnd = random.Random(seed + 99)
    jobs = []
    cfgs = [('base', {}), ('bad-offset', dict(tl_offset=list(b'+0:0'))), ('no-targets', dict(targets=[]))]
    for name, tpl in list(C01_EXTRA.items()) + list(STRUCT.items()) + list(JUNK.items()):
        extra = name in C01_EXTRA
        if tier == 'quick':
            # the totality-specific templates get the larger share; the others are explored by C02..C19 as well (clean, list)
            budget, limit = (4, 4) if extra else (3, 1)
        else:
            budget, limit = (5, 10) if extra else (5, 3)
        vs = variants(tpl, budget, 3, rnd, limit)
        for sizes in vs:
            if sum(sizes) < min(budget, 2) and len(vs) > 2:
                continue
            for cname, cfg in (cfgs[:2] if extra and tier != 'quick' else cfgs[:1]):
                jobs.append(dict(harness='c01_pipe', label=f'{name} holes={sizes} cfg={cname}',
                                 params=dict(tpl=instantiate(tpl, sizes), cfg=cfg, wrapper='wrapper' in name)))
    # configurations with unusual strings: multi-byte / empty / blank target names, multi-byte tag names and offsets that are not offsets
    odd = [('multi-byte targets', dict(targets=[list('新機能'.encode()), list('é'.encode())])), ('empty and blank targets', dict(targets=[[], [32], list(b'*')])),
           ('multi-byte offset', dict(tl_offset=list('＋09:00'.encode()))), ('multi-byte tag names', dict(tl_tag=list('期限'.encode()), rm_tag=list('m'.encode())))]
    for name in ('block', 'ready-in-pending', 'unwrap-pending', 'inline') + (() if tier == 'quick' else ('two-blocks', 'unwrap', 'pending-in-ready', 'touching')):
        for cname, cfg in odd:
            for sizes in variants(STRUCT[name], 2, 2, rnd, 1):
                jobs.append(dict(harness='c01_pipe', label=f'{name} holes={sizes} cfg={cname}', params=dict(tpl=instantiate(STRUCT[name], sizes), cfg=cfg, wrapper=False)))
    tj = transformed_jobs('C01', tier, seed, harness='c01_pipe', extra_params=dict(cfg={}, wrapper=False))
    return jobs + (tj[:24] if tier == 'quick' else random.Random(seed + 5).sample(tj, min(len(tj), 240))) + scale_jobs('C01', tier, harness='c01_pipe', extra_params=dict(cfg={}, wrapper=False))


# ---------------------------------------------------------------- C06 marker / skip / tag-name decision
def expect_identity(ctx, src, out, why, role):
    ctx.check(len(out) == len(src) and b_and(same(a, b) for a, b in zip(src, out)), why, role)


def expect_exact(ctx, out, exp, why, role):
    ctx.check(len(out) == len(exp) and b_and(same(a, b) for a, b in zip(exp, out)), why, role)


@harness('c06_decision', covers=['value-is-member', 'value-not-member', 'prefix-of-target', 'empty-target-set', 'skip-attribute',
                                 'keyword-inside-value', 'unregistered-name', 'registered-name'])
def c06_decision(ctx, p):
    mode = p['mode']
    ds, de = [60], [62]
    q = p.get('quote', "'")
    if mode == 'membership':
        # targets: 0..2 symbolic strings; name value: symbolic string; ready <=> value is a member, byte for byte
        targets = [ctx.bytes(f't{i}', k) for i, k in enumerate(p['targets'])]
        val = ctx.bytes('val', p['val'], exclude=(ord(q), 62))
        cfg = base_cfg(targets=targets)
        src = list(b"A<m name=" + q.encode()) + val + list(q.encode() + b">q</m>B")
        member = b_or(bytes_eq(val, t) for t in targets)
        if not targets:
            ctx.cover('empty-target-set')
        for t in targets:
            if len(t) > len(val):
                cover_if(ctx, 'prefix-of-target', bytes_eq(val, t[:len(val)]))
            elif len(t) < len(val):
                cover_if(ctx, 'prefix-of-target', bytes_eq(val[:len(t)], t))
        out = ctx.impl.clean(src, ds, de, cfg)
        only = p.get('only')   # cross-included under C02 / C04 ('non-member') or C03 ('member'): only the branch that instantiates that property is asserted
        if ctx.branch(member):
            if only == 'non-member':
                return
            ctx.cover('value-is-member')
            expect_exact(ctx, out, list(b"AB"), 'name value is a member of the target set but the element was not removed', 'member-not-removed')
        else:
            if only == 'member':
                return
            ctx.cover('value-not-member')
            expect_identity(ctx, src, out, 'name value is not a member of the target set but the source changed', 'non-member-removed')
    elif mode == 'no-value':
        # missing or valueless name attribute, target set arbitrary (may contain the empty string)
        targets = [ctx.bytes(f't{i}', k) for i, k in enumerate(p['targets'])]
        cfg = base_cfg(targets=targets)
        src = list(("A<m " + p['attrs'] + ">q</m>B").encode())
        out = ctx.impl.clean(src, ds, de, cfg)
        ctx.cover('value-not-member')
        expect_identity(ctx, src, out, 'element without a name value was removed', 'valueless-name-removed')
    elif mode == 'skip':
        # `skip` as a bare attribute at position pos among n attributes; condition satisfied; a ready child inside
        attrs = list(p['attrs'])
        attrs.insert(p['pos'], p.get('skip_as', 'skip'))   # bare, or written with a value (skip='true', skip="")
        sep = [ctx.bytes(f's{i}', 1, only=(32, 10)) for i in range(len(attrs))]
        tag = list(p['tag'].encode())
        src = list(b"A<") + tag
        for s, a in zip(sep, attrs):
            src += s + list(a.encode())
        src += list(b">k<t " + EXPIRED.encode() + b">c</t>e</") + tag + list(b">B")
        cfg = base_cfg()
        ctx.cover('skip-attribute')
        out = ctx.impl.clean(src, ds, de, cfg)
        exp = src[:src.index(62) + 2] + list(b"e</") + tag + list(b">B")  # only the ready child disappears
        expect_exact(ctx, out, exp, 'element marked skip must stay (tags included) while its ready child is removed', 'skip-ignored-or-child-not-processed')
    elif mode == 'keyword-in-value':
        # the words skip / unwrap-block inside a quoted value have no effect: element is ready and removed as a range
        pre = ctx.bytes('pre', p.get('pre', 1), exclude=(ord(q), 62))
        post = ctx.bytes('post', p.get('post', 1), exclude=(ord(q), 62))
        src = list(b"A\n<m name='x' c=" + q.encode()) + pre + list(p['word'].encode()) + post + list(q.encode() + b">\n1\n2\n3\n</m>\nB\n")
        ctx.cover('keyword-inside-value')
        out = ctx.impl.clean(src, ds, de, base_cfg())
        expect_exact(ctx, out, list(b"A\nB\n"), f"the word {p['word']} inside a quoted value changed the decision / strategy", 'keyword-in-value-has-effect')
    elif mode == 'tagname':
        nm = ctx.bytes('nm', p['n'], exclude=(32, 10, 9, 61, 34, 39, 47, 60, 62))
        src = list(b"A<") + nm + list(b" name='x' " + EXPIRED.encode() + b">q</") + nm + list(b">B")
        out = ctx.impl.clean(src, ds, de, base_cfg())
        reg = b_or([bytes_eq(nm, [109]), bytes_eq(nm, [116])])
        if ctx.branch(reg):
            ctx.cover('registered-name')
            expect_exact(ctx, out, list(b"AB"), 'element with a configured tag name and satisfied condition not removed', 'registered-not-removed')
        else:
            ctx.cover('unregistered-name')
            expect_identity(ctx, src, out, 'element whose tag name is not configured was removed', 'unregistered-removed')
    else:
        raise KeyError(mode)


def c06_jobs(tier, seed):
    jobs = []
    J = lambda label, **p: jobs.append(dict(harness='c06_decision', label=label, params=p))
    vmax = 2 if tier == 'quick' else 3
    tsets = [[], [1], [2], [1, 1], [1, 2], [2, 2], [0], [0, 1]] + ([[3], [2, 3], [1, 1, 1], [3, 3]] if tier != 'quick' else [])
    for ts in tsets:
        for v in range(0, vmax + 1):
            for q in ("'", '"'):
                if q == '"' and (len(ts) > 1 or v == 0) and tier == 'quick':
                    continue
                J(f'membership targets={ts} |value|={v} quote={q}', mode='membership', targets=ts, val=v, quote=q)
    for attrs in ('name', 'x', "nam='x'", "name2='x'", "name y='1'", ''):
        for ts in ([], [1], [0], [0, 1]):
            J(f'no-value attrs={attrs!r} targets={ts}', mode='no-value', attrs=attrs, targets=ts)
    base_attrs = {'m': ["name='x'", "a='1'", 'b'], 't': [EXPIRED, "a='1'", 'b']}
    for tag in ('m', 't'):
        for n in range(1, 4):
            for pos in range(0, n + 1):
                J(f'skip tag={tag} attrs={n} pos={pos}', mode='skip', tag=tag, attrs=base_attrs[tag][:n], pos=pos)
        for sk in ("skip='true'", 'skip=""', 'skip = "1"'):
            for pos in (0, 2):
                J(f'skip written {sk} tag={tag} pos={pos}', mode='skip', tag=tag, attrs=base_attrs[tag][:2], pos=pos, skip_as=sk)
    for w in ('skip', 'unwrap-block', ' skip ', "skip='1'", ' unwrap-block'):
        for q in ("'", '"'):
            if q in w:
                continue
            J(f'keyword-in-value {w!r} quote={q}', mode='keyword-in-value', word=w, quote=q, pre=1 if tier == 'quick' else 2, post=1)
            J(f'keyword-is-value {w!r} quote={q}', mode='keyword-in-value', word=w, quote=q, pre=0, post=0)
    for n in (1, 2) + ((3,) if tier != 'quick' else ()):
        J(f'tagname |name|={n}', mode='tagname', n=n)
    return jobs


# ---------------------------------------------------------------- C12 uniform, safe dedent
def c12_doc(p):
    """unwrap block(s) with free indentation everywhere; returns template. lines: list of (indent_slot, text)"""
    hs = p['holes']
    g = lambda name, cls='ind': H(hs.get(name, 0), cls)
    fixed = p.get('fixed', {})  # fixed indentation strings per slot (concrete part in front of the hole)
    f = lambda name: fixed.get(name, '')
    tpl = []
    for i in range(p.get('pre', 1)):
        tpl += [f(f'pre{i}'), g(f'pre{i}'), "A%d\n" % i]
    tpl += [f('tag'), g('tag'), O('m', RX + ' unwrap-block'), "\n", f('w1'), g('w1'), "{"]
    if p.get('w1_child'):   # a removable inline element on the opening wrapper line
        tpl += [" ", O('t', RT), "old();", C('t')]
    tpl += ["\n"]
    for j, kind in enumerate(p['body']):
        if kind == 'code':
            tpl += [f(f'b{j}'), g(f'b{j}'), g(f'b{j}t', 'nb'), "L%d\n" % j]
        elif kind == 'padded':   # a line that starts at the left margin (left of an indented tag) and has a run of blanks inside its text
            tpl += [g(f'b{j}'), "x", g(f'b{j}p'), "= 1;\n"]
        elif kind == 'blank':
            tpl += [f(f'b{j}'), g(f'b{j}'), "\n"]
        elif kind == 'ready':  # nested ready default-strategy element (three lines)
            tpl += [f(f'b{j}'), g(f'b{j}'), O('t', RT), "\n", f(f'b{j}'), "z\n", f(f'b{j}'), g(f'b{j}c'), C('t'), "\n"]
        elif kind == 'pending':
            tpl += [f(f'b{j}'), g(f'b{j}'), O('t', PT), "\n", f(f'b{j}'), g(f'b{j}i'), "z\n", f(f'b{j}'), g(f'b{j}c'), C('t'), "\n"]
        elif kind == 'unwrap':  # nested ready unwrap block with two inner lines
            tpl += [f(f'b{j}'), g(f'b{j}'), O('t', RT + ' unwrap-block'), "\n", f(f'b{j}'), g(f'b{j}w'), "[\n",
                    f(f'b{j}i'), g(f'b{j}i'), "M0\n", f(f'b{j}i'), g(f'b{j}k'), "M1\n", f(f'b{j}'), "]\n", f(f'b{j}'), g(f'b{j}c'), C('t'), "\n"]
    if p.get('eof_tag'):   # the closing tag is the last thing in the file
        return tpl + [f('w2'), g('w2'), "}\n", f('ctag'), g('ctag'), C('m')]
    tpl += [f('w2'), g('w2'), "}\n", f('ctag'), g('ctag'), C('m'), "\n"]
    for i in range(p.get('post', 1)):
        tpl += [f(f'post{i}'), g(f'post{i}'), "B%d\n" % i]
    return tpl


@harness('c12_dedent', covers=['first-inner-deeper-than-tag', 'line-left-of-tag-column', 'line-deeper-than-first', 'tab-indent', 'block-on-first-line',
                               'nested-unwrap'])
def c12_dedent(ctx, p):
    ds, de = [60], [62]
    cfg = cfg_from(p)
    src, parts = render(ctx, c12_doc(p), ds, de)
    B = Blanks(ctx, src, parts)
    ready, pending, allel = evaluate(src, parts, cfg)
    mask = extent_mask(len(src), ready)
    out = ctx.impl.clean(src, ds, de, cfg)
    # line table of the input: (start, end, bytes)
    lines = []
    pos = 0
    for l in split_lines(src):
        lines.append((pos, pos + len(l), l))
        pos += len(l) + 1
    if lines and lines[-1][2] == [] and isinstance(src[-1], int) and src[-1] == 10:
        lines.pop()
    line_of = lambda bpos: next(i for i, (s, e, _) in enumerate(lines) if s <= bpos <= e)
    # per surviving line: list of column ranges removed by the unwrap blocks around it (statement, per block, original columns)
    removal = {i: [] for i in range(len(lines))}
    survive = [not any(mask[k] for k in range(s, e)) and not (e > s and mask[s]) for (s, e, _) in lines]
    for i, (s, e, l) in enumerate(lines):
        if e == s and s < len(src) and mask[s - 1 if s > 0 else 0] and False:
            pass
    unwraps = [e for e in ready if e['unwrap']]
    ragged = set()   # (kept empty: since the D10 / D11 repairs the union rule below also holds when a nested tag stands left of the enclosing block's body)
    if p.get('pre', 1) == 0:
        ctx.cover('block-on-first-line')
    if len(unwraps) > 1:
        ctx.cover('nested-unwrap')
    for u in unwraps:   # pre-pass: which nested blocks are ragged (their tag stands left of the enclosing block's body column)
        for o_ in unwraps:
            if o_ is not u and o_['open']['start'] < u['open']['start'] and u['close']['end'] <= o_['close']['end']:
                ot = B.indent(lines[line_of(o_['open']['start'])][2])
                of = B.indent(lines[line_of(o_['extents'][0][1]) + 1][2])
                if False and B.indent(lines[line_of(u['open']['start'])][2]) < ot + max(0, of - ot):
                    ragged.update(range(line_of(u['open']['start']), line_of(u['close']['end'] - 1) + 1))
    for u in unwraps:
        tagline = line_of(u['open']['start'])
        T = B.indent(lines[tagline][2])
        first = line_of(u['extents'][0][1]) + 1      # line after the opening wrapper line
        last = line_of(u['extents'][1][0]) - 1       # line before the closing wrapper line
        inner = [i for i in range(first, last + 1)]
        if not inner:
            continue
        F = B.indent(lines[inner[0]][2])
        S = max(0, F - T)
        if S > 0:
            ctx.cover('first-inner-deeper-than-tag')
        for o_ in unwraps:
            # nested blocks: every block removes the columns [T, T+S) of its own inner lines in original coordinates (union on a line inside both),
            # whether the inner tag is indented at least as deep as the outer body or stands left of it
            if o_ is not u and o_['open']['start'] < u['open']['start'] and u['close']['end'] <= o_['close']['end']:
                ot = B.indent(lines[line_of(o_['open']['start'])][2])
                of = B.indent(lines[line_of(o_['extents'][0][1]) + 1][2])
                pass
        if tagline in ragged:
            continue   # the lines of a raggedly nested block carry no obligation; the outer block's other lines still do
        for i in inner:
            ind = B.indent(lines[i][2])
            if ind <= T and len(B.strip(lines[i][2])) > 0:
                ctx.cover('line-left-of-tag-column')
            if ind > F:
                ctx.cover('line-deeper-than-first')
            if ind > T:
                removal[i].append((T, min(T + S, ind)))
    if any(isinstance(b, int) and b == 9 or (is_sym(b) and b.get_id() in B.blank_ids) for b in src):
        cover_if(ctx, 'tab-indent', b_or(b_eq(b, 9) for b in src if not isinstance(b, int) and b.get_id() in B.blank_ids) if ctx.symbolic
                 else any(b == 9 for b in src))
    exp_lines = []
    skip = []
    free = []  # whitespace-only lines: only blanks may go, amount not prescribed
    for i, (s, e, l) in enumerate(lines):
        if any(mask[k] for k in range(s, e)) or (s == e and False):
            continue
        # a line that is entirely inside a removed extent (also empty lines inside) is gone
        if s < len(src) and s == e and mask[min(s, len(src) - 1)] and (s == 0 or mask[s - 1]):
            continue
        cols = set()
        for a, b in removal[i]:
            cols |= set(range(a, b))
        exp_lines.append([b for k, b in enumerate(l) if k not in cols])
        free.append(len(B.strip(l)) == 0)
        skip.append(i in ragged)
    got = split_lines(out)
    # whitespace-only lines carry no dedent obligation (and a removed nested element may leave one behind): compare the
    # non-blank lines, in order
    got = [l for l in got if B.strip(l)]
    skip = [sk for sk, fr in zip(skip, free) if not fr]
    exp_lines = [l for l, fr in zip(exp_lines, free) if not fr]
    if len(got) != len(exp_lines):
        raise PathAbort()  # a different set of surviving lines is C11 / C13's subject, not a dedent question
    okv = [len(g_) == len(x) and b_and(same(a, b) for a, b in zip(g_, x)) for g_, x, sk in zip(got, exp_lines, skip) if not sk]
    ctx.check(b_and(okv), f'dedent differs: got {show_lines(got)} expected {show_lines(exp_lines)}',
              (lambda: 'unwrap-block-on-first-line-wrong-dedent' if unwraps[0]['open']['start'] > 0 and all(b != 10 for b in src[:unwraps[0]['open']['start']]) else 'dedent-mismatch'))


def c12_jobs(tier, seed):
    jobs = []
    J = lambda label, **p: jobs.append(dict(harness='c12_dedent', label=label, params=p))
    ind2 = dict(tag='', w1='', b0='  ', b1='  ', b2='  ', w2='', ctag='')
    ind_nested = dict(tag='  ', w1='  ', b0='    ', b1='    ', b2='    ', w2='  ', ctag='  ')
    tabs = dict(tag='\t', w1='\t', b0='\t\t', b1='\t\t', b2='\t\t', w2='\t', ctag='\t')
    hole_sets = [dict(tag=1, b0=2, b1=2), dict(b0=1, b1=3, b2=1), dict(tag=2, b1=2, b0t=1), dict(w1=2, w2=2, b0=2), dict(tag=2, ctag=2, b2=2), dict(b1=2, b2=1), dict(b1=1, b0t=2)]
    if tier != 'quick':
        hole_sets += [dict(tag=2, b0=3, b1=3, b2=2), dict(tag=3, b0=2, b1=2, ctag=1), dict(b0=4, b1=4), dict(tag=1, w1=1, b0=2, b1=2, w2=1, ctag=1)]
    for fname, fixed in (('none', {}), ('2sp', ind2), ('nested2sp', ind_nested), ('tabs', tabs)):
        for hs in hole_sets:
            for pre in ((1, 0) if tier != 'quick' or fname in ('none', 'nested2sp') else (1,)):
                J(f'dedent fixed={fname} pre={pre} holes={hs}', fixed=fixed, holes=hs, body=['code', 'code', 'code'], pre=pre)
    for body in (['code', 'blank', 'code'], ['code', 'ready', 'code'], ['ready', 'code', 'code'], ['pending', 'code'], ['code', 'unwrap', 'code'], ['unwrap'], ['code', 'code', 'unwrap']):
        for fname, fixed in (('2sp', ind2), ('nested2sp', ind_nested)):
            fx = dict(fixed)
            for j in range(len(body)):
                fx.setdefault(f'b{j}', fixed.get('b0', ''))
                fx[f'b{j}i'] = fx[f'b{j}'] + '  '
            for hs in (dict(tag=1, b0=2), dict(b1=2, b1i=2, b1k=1), dict(b0=1, b0i=2, b0w=1, b2=2)):
                J(f'dedent body={body} fixed={fname} holes={hs}', fixed=fx, holes=hs, body=body)
            if 'unwrap' in body or 'ready' in body:
                J(f'dedent body={body} fixed={fname} removable element on the opening wrapper line', fixed=fx, holes=dict(b0=1, b2=2) if len(body) > 2 else dict(b0=1), body=body, w1_child=1)
    for fname, fixed in (('2sp', ind2), ('nested2sp', ind_nested), ('tabs', tabs)):   # the block ends the file
        for hs in (dict(tag=1, b0=2, b1=2), dict(b1=2, b2=1, ctag=1)):
            J(f'dedent fixed={fname} closing tag at end of input holes={hs}', fixed=fixed, holes=hs, body=['code', 'code', 'code'], eof_tag=1)
    for body in (['blank', 'ready', 'code'], ['code', 'ready', 'blank', 'code'], ['code', 'blank', 'ready', 'blank']):   # blanks-only lines next to a removed child
        fx = dict(ind_nested)
        for j in range(len(body)):
            fx.setdefault(f'b{j}', ind_nested['b0'])
        J(f'dedent body={body} fixed=nested2sp', fixed=fx, holes=dict(b0=1, b2=2), body=body)
    # a nested block whose tag stands far left of the enclosing block's body (ragged nesting): the enclosing block's own lines still move uniformly
    rag = dict(tag='    ', w1='    ', b0=' ' * 12, b1='    ', b1i=' ' * 8, b2=' ' * 12, w2='    ', ctag='    ')
    for hs in (dict(b1k=2), dict(b1k=4, b2=1), dict(b1i=1, b1k=3, b0=1)):
        J(f'dedent ragged nesting holes={hs}', fixed=rag, holes=hs, body=['code', 'unwrap', 'code'])
        J(f'dedent ragged nesting, two lines behind the nested block, holes={hs}', fixed=dict(rag, b3=' ' * 12), holes=hs, body=['code', 'unwrap', 'code', 'code'])
    # lines left of the tag column whose text contains blanks in the columns the dedent removes from deeper lines
    for fname, fixed in (('nested2sp', ind_nested), ('tabs', tabs)):
        for hs in (dict(b1=1, b1p=3), dict(b1p=2, tag=1), dict(b1p=4), dict(b1=1, b1p=1, b0=1)):
            J(f'dedent body with a padded line left of the tag, fixed={fname} holes={hs}', fixed=fixed, holes=hs, body=['code', 'padded', 'code'])
    for fname, fixed in (('2sp', ind2), ('nested2sp', ind_nested)):
        fx = dict(fixed)
        for j in range(4):
            fx.setdefault(f'b{j}', fixed.get('b0', ''))
            fx[f'b{j}i'] = fx[f'b{j}'] + '  '
        fx['b2'] = fx['b0'] + '    '
        fx['b3'] = fx['b0'] + '  '
        J(f'dedent inner block then deeper lines, fixed={fname}, removable element on the opening wrapper line', fixed=fx, holes=dict(b2=1, b3=1),
          body=['code', 'unwrap', 'code', 'code'], w1_child=1)
        J(f'dedent inner block then deeper lines, fixed={fname}', fixed=fx, holes=dict(b2=2, b3=1, b1k=1), body=['code', 'unwrap', 'code', 'code'])
    return jobs


# ---------------------------------------------------------------- C13 block-style removal, blank-line residue
def c13_doc(p):
    hs = p['holes']
    g = lambda name, cls='ind': H(hs.get(name, 0), cls)
    tpl = []
    for _ in range(int(p.get('parent', 0))):   # parents that remove nothing on their own account (pending by default), each tag on its own line
        tpl += [O('m', p.get('parent_attrs', PN)), "\n"]
    if not p.get('first'):   # (first=1: the removed block begins on the first line of the file)
        tpl += [p.get('a_fix', ''), g('a_i'), g('a_t', 'nb'), "" if p.get('pure') else "A", g('a_e'), "\n"]
    for i in range(p['b']):
        tpl += [g(f'bl{i}'), "\n"]
    mt, ma = p.get('main', ('m', RX))
    tpl += [g('tag_i'), O(mt, ma), "\n", g('c_i'), "x", g('c_t', 'nb'), "\n"]
    if p.get('inner'):   # a ready block nested in the ready block
        tpl += [g('in_i'), O('t', RT), "\n", "w\n", g('cin_i'), C('t'), "\n", "v\n"]
    if p.get('eof_tag'):   # the document ends with the closing tag of the removed block (no line break behind it)
        return tpl + [g('ctag_i'), C(mt)]
    tpl += [g('ctag_i'), C(mt), "\n"]
    for i in range(p['a']):
        tpl += [g(f'al{i}'), "\n"]
    if p.get('second'):
        tpl += [g('m_i'), "M\n"]
        for i in range(p.get('b2', 0)):
            tpl += [g(f'b2l{i}'), "\n"]
        tpl += [g('tag2_i'), O('t', RT), "\n", "y\n", g('ctag2_i'), C('t'), "\n"]
        for i in range(p.get('a2', 0)):
            tpl += [g(f'a2l{i}'), "\n"]
    tpl += [p.get('z_fix', ''), g('z_i'), "" if p.get('pure') else "B", g('z_t', 'nb')]
    if p.get('final_nl', 1):
        tpl += ["\n"]
    for _ in range(int(p.get('parent', 0))):
        tpl += [C('m'), "\n"]
    return tpl


@harness('c13_block', covers=['no-blank-lines-around', 'blank-before-and-after', 'blank-only-before', 'whitespace-only-blank-line', 'two-blocks', 'nested-ready-block'])
def c13_block(ctx, p):
    ds, de = [60], [62]
    cfg = cfg_from(p)
    src, parts = render(ctx, c13_doc(p), ds, de)
    B = Blanks(ctx, src, parts)
    ready, pending, allel = evaluate(src, parts, cfg)
    mask = extent_mask(len(src), ready)
    a, b = p['a'], p['b']
    ctx.cover('no-blank-lines-around' if a == 0 and b == 0 else ('blank-before-and-after' if a and b else 'blank-only-before' if b else 'no-blank-lines-around'))
    if any(k.startswith(('bl', 'al')) and v for k, v in p['holes'].items()):
        ctx.cover('whitespace-only-blank-line')
    if p.get('second'):
        ctx.cover('two-blocks')
    if p.get('inner'):
        ctx.cover('nested-ready-block')
    out = ctx.impl.clean(src, ds, de, cfg)
    # 1. surviving non-blank lines, byte for byte incl. indentation, in order, nothing else non-blank
    in_lines = []
    pos = 0
    for l in split_lines(src):
        if not any(mask[k] for k in range(pos, pos + len(l))) and B.strip(l):
            in_lines.append(l)
        pos += len(l) + 1
    got_all = split_lines(out)
    got = [l for l in got_all if B.strip(l)]
    ctx.check(lines_equal(got, in_lines), f'non-blank output lines {show_lines(got)} != surviving input lines {show_lines(in_lines)}', 'line-not-intact')
    if p.get('eof_tag') or p.get('first'):
        return   # no surviving line behind / in front of the block: the residue clause does not apply
    # 2. blank-line residue between the neighbours of each removed block
    def blanks_between(k):
        """whitespace-only lines in the output between the k-th and (k+1)-th non-blank line"""
        idx = [i for i, l in enumerate(got_all) if B.strip(l)]
        return idx[k + 1] - idx[k] - 1
    base_k = int(p.get('parent', 0))
    first_next = 'M' if p.get('second') else 'B'
    exp1 = a + b - (1 if a > 0 and b > 0 else 0)
    n1 = blanks_between(base_k)
    ctx.check(n1 == exp1, f'{n1} blank lines remain around the removed block, expected a+b-[a>0 and b>0] = {exp1} (b={b} before, a={a} after)', 'blank-line-residue')
    if p.get('second'):
        a2, b2 = p.get('a2', 0), p.get('b2', 0)
        exp2 = a2 + b2 - (1 if a2 > 0 and b2 > 0 else 0)
        n2 = blanks_between(base_k + 1)
        ctx.check(n2 == exp2, f'{n2} blank lines remain around the second removed block, expected {exp2}', 'blank-line-residue')


def c13_jobs(tier, seed):
    jobs = []
    J = lambda label, **p: jobs.append(dict(harness='c13_block', label=label, params=p))
    mx = 3 if tier == 'quick' else 4
    for a in range(0, mx + 1):
        for b in range(0, mx + 1):
            hsets = [dict(tag_i=2, ctag_i=2, c_i=1), dict(bl0=2, al0=2, a_i=1), dict(a_t=1, z_t=1, z_i=2, tag_i=1)]
            if tier != 'quick':
                hsets += [dict(bl0=2, bl1=2, al0=1, al1=1), dict(tag_i=2, bl0=1, al0=1, ctag_i=1), dict(a_i=2, tag_i=2, z_i=2)]
            for hs in hsets:
                hs = {k: v for k, v in hs.items() if not (k.startswith('bl') and int(k[2:]) >= b) and not (k.startswith('al') and int(k[2:]) >= a)}
                J(f'block b={b} a={a} holes={hs}', a=a, b=b, holes=hs)
    for a, b, a2, b2 in [(0, 0, 0, 0), (1, 1, 1, 1), (0, 1, 1, 0), (2, 0, 0, 2), (1, 2, 2, 1)]:
        J(f'two blocks b={b} a={a} b2={b2} a2={a2}', a=a, b=b, a2=a2, b2=b2, second=1, holes=dict(tag_i=1, tag2_i=1, m_i=2, al0=1))
    for a, b in [(0, 0), (1, 1), (0, 1), (1, 0)]:   # neighbour lines made of two free bytes only (e.g. one two-byte character)
        J(f'neighbour lines are two free bytes, b={b} a={a}', a=a, b=b, pure=1, holes=dict(a_t=2, z_t=2, a_i=1, z_i=1))
        J(f'neighbour lines are four free bytes, b={b} a={a}', a=a, b=b, pure=1, holes=dict(a_t=4, z_t=4))
    for a, b in [(0, 0), (1, 1), (2, 1), (0, 2)]:
        J(f'nested ready block b={b} a={a}', a=a, b=b, inner=1, holes=dict(tag_i=1, in_i=2, cin_i=1))
        J(f'pending parent b={b} a={a}', a=a, b=b, parent=1, holes=dict(tag_i=2, a_i=2, z_i=1))
        J(f'no final newline b={b} a={a}', a=a, b=b, final_nl=0, holes=dict(z_t=2, z_i=1, al0=1 if a else 0))
    for n in (8, 12, 16):   # neighbour lines that are a long run of blanks and a single character (word-at-a-time scans)
        for a, b in [(0, 0), (1, 0), (0, 1)]:
            J(f'neighbour lines are {n} blanks and one character, b={b} a={a}', a=a, b=b, a_fix=' ' * n, z_fix=' ' * n, holes=dict(a_i=1, tag_i=2))
            J(f'neighbour lines are {n} blanks and one character inside a pending parent, b={b} a={a}', a=a, b=b, parent=1, a_fix=' ' * n, z_fix=' ' * n, holes=dict(tag_i=2, c_i=1))
    for a, b in [(0, 0), (1, 1)]:   # three free bytes in front of the block (characters whose case mapping changes their length, among others)
        J(f'three free bytes on the line above, b={b} a={a}', a=a, b=b, holes=dict(a_t=3, tag_i=1))
    for a, b in [(0, 0), (1, 1)]:   # parents marked skip / ready-but-skipped; a time-limited block exactly at / one second before its deadline at +09:00 and -03:30
        J(f'skip parent b={b} a={a}', a=a, b=b, parent=1, parent_attrs=SK, holes=dict(tag_i=2, a_i=1))
        J(f'two skip parents b={b} a={a}', a=a, b=b, parent=2, parent_attrs="to='2001-01-01 00:00:00' skip name='n'", holes=dict(tag_i=1, z_i=1))
        for off, now in (('+09:00', 1704034800), ('-03:30', 1704079800)):
            J(f'time-limited block at its deadline, offset {off}, b={b} a={a}', a=a, b=b, main=('t', "to='2024-01-01 00:00:00'"), cfg=dict(tl_offset=list(off.encode()), now=now), holes=dict(tag_i=1, a_i=1))
    for depth in ((300,) if tier == 'quick' else (40, 300)):   # any depth of pending-parent nesting
        J(f'block inside {depth} pending parents', a=1, b=1, parent=depth, holes=dict(tag_i=2, a_i=1))
    for hs in (dict(tag_i=2, ctag_i=2), dict(tag_i=1, c_i=2, z_i=1), dict(ctag_i=2, z_t=1)):   # the block begins on the first line of the file
        J(f'block on the first line holes={hs}', a=0, b=0, first=1, holes=hs)
        J(f'block on the first line, blank line behind, holes={hs}', a=1, b=0, first=1, holes=hs)
    for b in (0, 1):   # the closing tag is the last thing in the file, multi-byte text earlier
        J(f'closing tag at end of input b={b}, multi-byte text before', a=0, b=b, eof_tag=1, holes=dict(a_t=3, ctag_i=1))
        J(f'closing tag at end of input b={b}, multi-byte text inside', a=0, b=b, eof_tag=1, holes=dict(c_t=3, tag_i=1, a_t=1))
        J(f'closing tag at end of input b={b}, blanks at the end of the last surviving line', a=0, b=b, eof_tag=1, holes=dict(a_e=2, ctag_i=1))
    return jobs


# ---------------------------------------------------------------- C19 idempotence and composition over time
def equal_mod_blanks(a, b):
    """a and b are equal after deleting blanks (' ', tab, line break) from both: bool | z3 Bool (dynamic programming)"""
    n, m = len(a), len(b)
    ba = [is_blank(x) for x in a]
    bb = [is_blank(x) for x in b]
    prev = [False] * (m + 1)
    prev[0] = True
    for j in range(1, m + 1):
        prev[j] = b_and([prev[j - 1], bb[j - 1]])
    for i in range(1, n + 1):
        cur = [False] * (m + 1)
        cur[0] = b_and([prev[0], ba[i - 1]])
        for j in range(1, m + 1):
            alts = []
            if prev[j] is not False and ba[i - 1] is not False:
                alts.append(b_and([prev[j], ba[i - 1]]))
            if cur[j - 1] is not False and bb[j - 1] is not False:
                alts.append(b_and([cur[j - 1], bb[j - 1]]))
            if prev[j - 1] is not False:
                eq = same(a[i - 1], b[j - 1])
                if eq is not False:
                    alts.append(b_and([prev[j - 1], eq]))
            cur[j] = b_or(alts)
        prev = cur
    return prev[m]


E1, E2, E3 = "to='2001-01-01 00:00:00'", "to='2010-01-01 00:00:00'", "to='2999-01-01 00:00:00'"
TIMES = {'t0': 946684800, 't1': 1104537600, 't2': 1420070400}  # 2000, 2005, 2015

HIST = {
    'siblings': ["A\n", H(1, 'ws'), O('t', E1), "\none\n", C('t'), "\n", H(2, 'ws'), O('t', E2), "\ntwo\n", C('t'), "\n", H(1, 'ws'), "B\n"],
    'nested-inner-first': ["A\n", O('t', E2), "\n", H(1, 'ind'), "p\n", H(1, 'ind'), O('t', E1), "\nq\n", C('t'), "\n", H(2, 'ws'), "r\n", C('t'), "\nB", H(1, 'ws')],
    'nested-outer-first': ["A\n", O('t', E1), "\np\n", O('t', E2), "\nq\n", C('t'), H(2, 'ws'), "\n", C('t'), "\nB\n"],
    'unwrap-inner-shorter': ["A\n", O('t', E2 + ' unwrap-block'), "\n{\n", H(1, 'ind'), "k;\n", H(1, 'ind'), O('t', E1), "\nold;\n", C('t'), "\n", H(1, 'ws'), "}\n", C('t'), "\nB\n"],
    'unwrap-body-emptied': ["A\n", O('t', E2 + ' unwrap-block'), "\n{\n", O('t', E1), "\nold;\n", C('t'), "\n}\n", C('t'), H(2, 'ws'), "B\n"],
    'unwrap-short-body-with-ready-child': ["A\n", O('t', E2 + ' unwrap-block'), "\n", H(1, 'ind'), O('t', E1), "old();", C('t'), "\n", C('t'), "\nB", H(1, 'ws')],
    'unwrap-end-tag-shares-line': ["A\n", O('t', E2 + ' unwrap-block'), "\n{\n", H(1, 'ind'), "k;\n} ", O('t', E1), "x", C('t'), H(1, 'sp'), C('t'), "\nB\n"],
    'unwrap-end-tag-line-has-inner-element': ["A\n", O('t', E2 + ' unwrap-block'), "\nif {\n", H(1, 'ind'), "k;\n}\n", O('t', E1), H(1, 'sp'), "x", C('t'), H(1, 'sp'), C('t'), "\nB\n"],
    'child-ends-on-closing-brace-line': ["A\n", O('t', E2 + ' unwrap-block'), "\nif {\n", H(1, 'ind'), "k;\n", O('t', E1), "\nold;\n", H(1, 'ind'), C('t'), " }\n", C('t'), "\nT1", H(1, 'nb'), "\nT2\n"],
    'child-ends-on-closing-brace-line-both-expired': ["A\n", O('t', E1 + ' unwrap-block'), "\nif {\n  k;\n", O('t', E1), "\nold;\n", C('t'), H(1, 'sp'), "}\n", C('t'), "\nT1\nT2", H(1, 'nb'), "\n"],
    'unwrap-start-tag-line-has-inner-element': ["A\n", O('t', E2 + ' unwrap-block'), H(1, 'sp'), O('t', E1), "x", C('t'), "\nif {\n", H(1, 'ind'), "k;\n}\n", C('t'), "\nB\n"],
    'unwrap-start-tag-shares-line': ["A\n", O('t', E1), "x", C('t'), H(1, 'sp'), O('t', E2 + ' unwrap-block'), "\n{\n", H(1, 'ind'), "k;\n}\n", C('t'), "\nB\n"],
    'markers-chain': ["A\n", O('m', "name='x'"), "\none\n", C('m'), "\n", H(2, 'ws'), O('m', "name='y'"), "\ntwo", H(1), "\n", C('m'), "\n", O('m', "name='z'"), "\nthree\n", C('m'), "\nB\n"],
    'marker-in-time': ["A", H(1, 'ws'), O('t', E2), H(1, 'ws'), O('m', "name='x'"), "q", C('m'), H(1, 'ws'), "r", C('t'), H(1, 'ws'), "B"],
    'inline-mix': [H(1), O('t', E1), "a", C('t'), H(2, 'ws'), O('t', E2), "b", C('t'), H(1)],
    'unwrap-children-on-both-wrapper-lines-and-between': ["A\n", O('t', E2 + ' unwrap-block'), "\nif (x) { ", O('t', E1), "a", C('t'), "\n", H(1, 'ind'), "k;\n", O('t', E1), "\nold;\n", C('t'),
                                                          "\n} ", O('t', E1), "b", C('t'), H(1, 'sp'), "\n", C('t'), "\nB\n"],
    'unwrap-children-on-both-wrapper-lines': ["A\n", O('t', E2 + ' unwrap-block'), "\nif (x) { ", O('t', E1), "a", C('t'), H(1, 'sp'), "\n  k;\n} ", O('t', E1), "b", C('t'), "\n", C('t'), "\nB\n"],
    'indented-unwrap-child-then-blanks-only-line': ["A\n  ", O('t', E2 + ' unwrap-block'), "\n  {\n      a();\n      ", O('t', E1), "\n      old();\n      ", C('t'), "\n    ", H(2, 'ind'), "\n      b();\n  }\n  ",
                                                    C('t'), "\nB\n"],
    'two-opposite-crossings-then-ready': ["A", O('t', E1), "a", O('u'), "b", C('t'), "c", C('u'), "\n", O('u'), "d", O('t', E3), "e", C('u'), "f", C('t'), "\n", O('t', E1), "g", C('t'), H(1, 'ws'),
                                          O('t', E2), "h", C('t'), "B"],
    'pending-forever': ["A\n", O('t', E3), "\n", H(2, 'ws'), O('t', E1), "\nq\n", C('t'), "\n", H(1, 'ws'), C('t'), "\nB\n"],
}
CHAINS = [  # (first configuration, second configuration): time non-decreasing, target sets growing
    (('t0', []), ('t1', [])), (('t1', []), ('t2', [])), (('t0', []), ('t2', [])), (('t1', []), ('t1', ['x'])), (('t0', ['x']), ('t2', ['x', 'y'])),
    (('t2', []), ('t2', ['x', 'y'])), (('t1', ['x']), ('t2', ['x'])),
]


def hist_cfg(c):
    return base_cfg(now=TIMES[c[0]], targets=[list(t.encode()) for t in c[1]])


@harness('c19_history', covers=['first-run-removes-something', 'second-run-removes-more', 'unwrap-after-earlier-removal'])
def c19_history(ctx, p):
    ds, de = [60], [62]
    src, parts = render(ctx, p['tpl'], ds, de)
    steps = [hist_cfg(c) for c in p['chain']]
    final = steps[-1]
    ready_first, _, _ = evaluate(src, parts, steps[0])
    ready_final, _, _ = evaluate(src, parts, final)
    if ready_first:
        ctx.cover('first-run-removes-something')
    if len(ready_final) > len(ready_first):
        ctx.cover('second-run-removes-more')
        if any(e['unwrap'] for e in ready_final if e not in ready_first) and ready_first:
            ctx.cover('unwrap-after-earlier-removal')
    cur = src
    for c in steps:
        cur = ctx.impl.clean(cur, ds, de, c)
    once = ctx.impl.clean(src, ds, de, final)
    ctx.check(equal_mod_blanks(cur, once), f'cleaning step by step {[x[0] for x in p["chain"]]} and cleaning once with the final configuration differ in non-blank text',
              'stepwise-differs-from-once')
    again = ctx.impl.clean(once, ds, de, final)
    ctx.check(len(again) == len(once) and b_and(same(x, y) for x, y in zip(again, once)), 'cleaning the output again with the same configuration changes it',
              'not-idempotent')
    again2 = ctx.impl.clean(cur, ds, de, final)
    ctx.check(len(again2) == len(cur) and b_and(same(x, y) for x, y in zip(again2, cur)), 'cleaning the step-by-step result again changes it', 'not-idempotent')


def c19_jobs(tier, seed):
    rnd = random.Random(seed + 19)
    jobs = []
    budget = 3 if tier == 'quick' else 5
    chains = list(CHAINS)
    if tier != 'quick':
        chains += [(('t0', []), ('t1', []), ('t2', [])), (('t0', []), ('t1', ['x']), ('t2', ['x', 'y'])), (('t0', []), ('t1', []), ('t1', ['x']), ('t2', ['x', 'y', 'z']))]
    for name, tpl in HIST.items():
        vs = variants(tpl, budget, 2 if tier == 'quick' else 3, rnd, 2 if tier == 'quick' else 10)
        for sizes in vs:
            for ch in chains:
                uses_markers = 'marker' in name
                if not uses_markers and any(c[1] for c in ch) and tier == 'quick':
                    continue
                if uses_markers and not any(c[1] for c in ch):
                    continue
                jobs.append(dict(harness='c19_history', label=f'{name} holes={sizes} chain={"→".join(c[0] + str(c[1]) for c in ch)}',
                                 params=dict(tpl=instantiate(tpl, sizes), chain=[list(c) for c in ch])))
    return jobs


# ---------------------------------------------------------------- C18 spelling independence (relational)
def render2(ctx, tpl, ds, de, names):
    """second spelling of the same template: other delimiters, other tag names (names: dict 't'/'m'/'u' -> byte list);
    hole variables are shared with the first rendering (same z3 names)"""
    src, parts = [], []
    nh = 0
    hole_vars = ctx._c18_holes
    for p in tpl:
        st = len(src)
        if isinstance(p, str):
            src += list(p.encode())
            parts.append(dict(kind='lit', start=st, end=len(src)))
        elif p[0] == 'h':
            src += hole_vars[nh]
            nh += 1
            parts.append(dict(kind='hole', start=st, end=len(src)))
        elif p[0] == 'o':
            t = list(ds) + list(names[p[1]]) + (list((' ' + p[2]).encode()) if len(p) > 2 and p[2] else []) + list(de)
            src += t
            parts.append(dict(kind='open', start=st, end=len(src), text=t))
        else:
            t = list(ds) + [47] + list(names[p[1]]) + list(de)
            src += t
            parts.append(dict(kind='close', start=st, end=len(src), text=t))
    return src, parts


@harness('c18_spelling', covers=['something-removed', 'tag-survives', 'multibyte-delimiter', 'identical-delimiters'])
def c18_spelling(ctx, p):
    tpl = p['tpl']
    cfg1 = cfg_from(p)
    src1, parts1 = render(ctx, tpl, [60], [62])
    ctx._c18_holes = [src1[q['start']:q['end']] for q in parts1 if q['kind'] == 'hole']
    # second spelling
    if 'ds' in p:
        ds, de = list(p['ds'].encode()), list(p['de'].encode())
    else:
        ds, de = ctx.bytes('ds', p['ds_len']), ctx.bytes('de', p['de_len'])
    if 'names' in p:
        names = {k: list(v.encode()) for k, v in p['names'].items()}
    else:
        names = {k: ctx.bytes('nm_' + k, p['name_len'], exclude=(32, 10, 9, 13, 61, 34, 39, 47)) for k in ('t', 'm', 'u')}
        if ctx.symbolic:
            for a_, b_ in (('t', 'm'), ('t', 'u'), ('m', 'u')):
                ctx.constrain(b_not(bytes_eq(names[a_], names[b_])))
        else:
            ctx.constrain(names['t'] != names['m'] and names['t'] != names['u'] and names['m'] != names['u'])
    # "the delimiter characters do not occur elsewhere in the text": no byte of the text, of the tag names or of the attribute
    # texts equals any delimiter byte; the delimiters contain no line break
    text_bytes = []
    for q, part in zip(parts1, tpl):
        if q['kind'] in ('lit', 'hole'):
            text_bytes += src1[q['start']:q['end']]
        elif q['kind'] == 'open' and len(part) > 2:
            text_bytes += list(part[2].encode())
    text_bytes += [47, 32]
    for nm in names.values():
        text_bytes += nm
    uniq = []
    seen = set()
    for b in text_bytes:
        k = b if isinstance(b, int) else ('s', b.get_id())
        if k not in seen:
            seen.add(k)
            uniq.append(b)
    cons = [b_not(b_eq(ds[0], 32)), b_not(b_eq(ds[0], 9))]  # a start delimiter beginning with a blank is indistinguishable from indentation
    if 'ds' in p:
        # concrete second spelling: the side condition itself, not the byte-wise sufficient one - no match of the start delimiter can begin in
        # the text (its first byte does not occur there) and the end delimiter does not occur inside a tag body; so delimiters may share
        # blanks, '-', '!' ... with the text (the statement names delimiters containing spaces)
        outside = []
        for q in parts1:
            if q['kind'] in ('lit', 'hole'):
                outside += src1[q['start']:q['end']]
        seen = set()
        for b in outside:
            k = b if isinstance(b, int) else ('s', b.get_id())
            if k not in seen:
                seen.add(k)
                cons.append(b_not(b_eq(ds[0], b)))
        bodies = [list(nm) for nm in names.values()] + [list(part[2].encode()) for part in tpl if isinstance(part, tuple) and part[0] == 'o' and len(part) > 2]
        for body in bodies:
            body = [47] + body + [32]
            if any(body[i:i + len(de)] == de for i in range(len(body))) or any(body[i:i + len(ds)] == ds for i in range(len(body))):
                cons.append(False)
        cons += [b_not(b_eq(x, 10)) for x in ds + de]
    else:
        for dbyte in ds + de:
            cons.append(b_not(b_eq(dbyte, 10)))
            for b in uniq:
                cons.append(b_not(b_eq(dbyte, b)))
    ctx.constrain(b_and(cons))
    if ctx.symbolic:
        cover_if(ctx, 'multibyte-delimiter', uge(ds[0], 0x80))
        cover_if(ctx, 'identical-delimiters', bytes_eq(ds, de) if len(ds) == len(de) else False)
    else:
        if ds[0] >= 0x80:
            ctx.cover('multibyte-delimiter')
        if ds == de:
            ctx.cover('identical-delimiters')
    src2, parts2 = render2(ctx, tpl, ds, de, names)
    cfg2 = dict(cfg1, tl_tag=names['t'], rm_tag=names['m'])
    out1 = ctx.impl.clean(src1, [60], [62], cfg1)
    out2 = no_panic(ctx, lambda: ctx.impl.clean(src2, ds, de, cfg2), 'clean under the second spelling (the first spelling returns normally)', 'spelling-dependent-panic')
    # rewrite out1 into the second spelling: every '<' ... '>' in out1 is one of the template's tags (holes and literals have neither)
    tagmap = {}
    for q1, q2 in zip(parts1, parts2):
        if q1['kind'] in ('open', 'close'):
            tagmap[bytes(src1[q1['start']:q1['end']])] = q2['text']
    exp = []
    i = 0
    survived = False
    while i < len(out1):
        b = out1[i]
        if isinstance(b, int) and b == 60:
            j = i
            while not (isinstance(out1[j], int) and out1[j] == 62):
                j += 1
            key = bytes(out1[i:j + 1])
            if key not in tagmap:
                ctx.check(False, 'first run produced a damaged tag', 'damaged-tag')
            exp += tagmap[key]
            survived = True
            i = j + 1
        else:
            exp.append(b)
            i += 1
    if len(out1) < len(src1):
        ctx.cover('something-removed')
    if survived:
        ctx.cover('tag-survives')
    ctx.check(len(out2) == len(exp) and b_and(same(a, b) for a, b in zip(out2, exp)),
              'clean under the second spelling is not the rewritten output of the first spelling', 'spelling-dependent-clean')
    l1 = ctx.impl.list(src1, [60], [62], cfg1, all=True, format='json')
    l2 = no_panic(ctx, lambda: ctx.impl.list(src2, ds, de, cfg2, all=True, format='json'), 'list_all under the second spelling', 'spelling-dependent-panic')
    r1 = [(it['line_range'], it['current_status']) for it in l1.get('items', [])]
    r2 = [(it['line_range'], it['current_status']) for it in l2.get('items', [])]
    ctx.check(r1 == r2, f'list_all line ranges differ between spellings: {r1} vs {r2}', 'spelling-dependent-list')


def c18_jobs(tier, seed):
    from props_front import POOL
    rnd = random.Random(seed + 18)
    jobs = []
    names_pool = [dict(t='time-limited', m='removal-marker', u='x-y'), dict(t='期限', m='削除', u='他'), dict(t='T', m='tm', u='t')]
    tnames = ['ends-with-close-tag', 'block', 'inline', 'ready-in-pending', 'unwrap', 'two-blocks', 'multibyte-seam', 'only-element', 'pending-in-ready', 'unwrap-nested-pending',
              'ready-in-unregistered', 'last-line']
    budget = 2 if tier == 'quick' else 3
    if tier == 'quick':
        tnames = ['ready-in-pending', 'unwrap-nested-pending', 'inline', 'pending-in-ready', 'ends-with-close-tag']
    for name in tnames:
        tpl = STRUCT[name]
        vs = variants(tpl, budget, 2, rnd, 1 if tier == 'quick' else 2)
        for sizes in vs:
            inst = instantiate(tpl, sizes)
            for (ds, de) in ([POOL[1], POOL[4], POOL[6], POOL[8], POOL[10]] if tier != 'quick' else [POOL[1], POOL[6], POOL[8]]):
                nm = names_pool[(len(jobs)) % len(names_pool)]
                jobs.append(dict(harness='c18_spelling', label=f'{name} holes={sizes} ds={ds!r} de={de!r} names={nm["t"]}/{nm["m"]}',
                                 params=dict(tpl=inst, ds=ds, de=de, names=nm)))
            for (a, b, nl) in ([(1, 1, 1), (2, 2, 2)] if tier == 'quick' else [(1, 1, 1), (2, 2, 2), (3, 3, 1)]):
                jobs.append(dict(harness='c18_spelling', label=f'{name} holes={sizes} symbolic |ds|={a}B |de|={b}B |names|={nl}B',
                                 params=dict(tpl=inst, ds_len=a, de_len=b, name_len=nl)))
    # tags whose length in the '<' '>' spelling is exactly a power of two (1 KiB ... 64 KiB): any size guard that counts the delimiters or the
    # tag name flips under a longer spelling
    for k in ((12, 16) if tier == 'quick' else (10, 12, 13, 16)):
        pad = (1 << k) - len("<m name='x' note=''>")
        tpl = ["A\n", O('m', RX + " note='" + 'a' * pad + "'"), "\nq\n", C('m'), "\nB", H(1, 'txt'), "\n"]
        for (ds, de), nm in ((POOL[1], names_pool[0]), (POOL[7], names_pool[1])):
            jobs.append(dict(harness='c18_spelling', label=f'tag of 2^{k} bytes ds={ds!r} de={de!r} names={nm["t"]}/{nm["m"]}', params=dict(tpl=instantiate(tpl, [1]), ds=ds, de=de, names=nm)))
    return jobs
