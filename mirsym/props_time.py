"""C05: expiry decision. Unit: the real TimeLimitedEvaluator::is_removal (MIR) over the chrono stub; pipeline probes via clean."""
import z3
from engine import is_sym, PathAbort
from models import b_eq, b_and, b_or, b_not, bytes_eq
from harness import harness
from impl import ImplPanic
from props_front import cover_if
import props_pipe
from templates import same

import chrono_stub
from chrono_stub import dval, days_from_civil


def num(bs):
    """value of a digit string, built exactly like chrono_stub.number builds it (32-bit terms)"""
    v = 0
    for b in bs:
        v = v * 10 + dval(b)
    return v


def B32(v):
    return v if is_sym(v) else z3.BitVecVal(v, 32)


def I64(v):
    if is_sym(v):
        return z3.SignExt(64 - v.size(), v) if v.size() < 64 else v
    return z3.BitVecVal(v, 64)


def ref_instant(y, mo, d, h, mi, s, off):
    """seconds since the epoch of the civil time y-mo-d h:mi:s at UTC offset `off` seconds.
    The day count is chrono_stub.days_from_civil, i.e. the same term the chrono stub builds: the date arithmetic is chrono's
    business (stubbed and pinned to the real library natively); what this reference fixes is which fields are combined how:
    instant = days*86400 + h*3600 + mi*60 + s - offset."""
    secs, frac = chrono_stub.instant_of(y, mo, d, h, mi, s, off, no_leap=True)   # seconds 00..59 (valid_civil)
    return secs


def valid_civil(y, mo, d, h, mi, s):
    y, mo, d, h, mi, s = map(B32, (y, mo, d, h, mi, s))
    leap = z3.And(z3.SRem(y, 4) == 0, z3.Or(z3.SRem(y, 100) != 0, z3.SRem(y, 400) == 0))
    dim = z3.If(mo == 2, z3.If(leap, z3.BitVecVal(29, 32), z3.BitVecVal(28, 32)),
                z3.If(z3.Or(mo == 4, mo == 6, mo == 9, mo == 11), z3.BitVecVal(30, 32), z3.BitVecVal(31, 32)))
    return z3.And(mo >= 1, mo <= 12, d >= 1, d <= dim, h >= 0, h <= 23, mi >= 0, mi <= 59, s >= 0, s <= 59, y >= 1)


DIG = tuple(range(48, 58))


def to_fields(ctx, p):
    """the 19 bytes of `to`: digits symbolic unless fixed by the job; returns (bytes, field values)"""
    fixed = p.get('fixed', {})  # field -> concrete string

    def field(name, n):
        if name in fixed:
            return list(fixed[name].encode())
        return ctx.bytes('to_' + name, n, only=DIG)
    Y, M, D, h, mi, s = field('Y', 4), field('M', 2), field('D', 2), field('h', 2), field('m', 2), field('s', 2)
    bs = Y + [45] + M + [45] + D + [32] + h + [58] + mi + [58] + s
    return bs, (num(Y), num(M), num(D), num(h), num(mi), num(s))


def offset_bytes(ctx, p):
    """sign HH [:] MM with symbolic sign / digits (job fixes the spelling: with or without colon)"""
    if 'offset' in p:
        o = p['offset']
        sign = -1 if o[0] == '-' else 1
        hh, mm = int(o[1:3]), int(o[-2:])
        return list(o.encode()), sign * (hh * 3600 + mm * 60)
    sg = ctx.bytes('off_sign', 1, only=(43, 45))[0]
    hh = ctx.bytes('off_h', 2, only=DIG)
    mm = ctx.bytes('off_m', 2, only=DIG)
    bs = [sg] + hh + ([58] if p.get('colon', True) else []) + mm
    hv, mv = num(hh), num(mm)
    ctx.constrain(z3.And(B32(hv) <= 14, B32(mv) <= 59) if ctx.symbolic else (hv <= 14 and mv <= 59))
    secs = hv * 3600 + mv * 60
    if not ctx.symbolic:
        return bs, (-secs if sg == 45 else secs)
    # decide the sign per path (as the parser does), so that reference and implementation build the same term
    return bs, (-secs if ctx.branch(sg == 45) else secs)


@harness('c05_decision', covers=['expired', 'not-expired', 'equality-instant', 'negative-offset', 'leap-day'])
def c05_decision(ctx, p):
    to, (y, mo, d, h, mi, s) = to_fields(ctx, p)
    ob, off = offset_bytes(ctx, p)
    if ctx.symbolic:
        ctx.constrain(valid_civil(y, mo, d, h, mi, s))
        ctx.constrain(z3.And(B32(y) >= p.get('ymin', 1970), B32(y) <= p.get('ymax', 2200)))
    exp = ref_instant(y, mo, d, h, mi, s, off)
    if ctx.symbolic:
        now = ctx.int('now', 0, 1 << 34)
        delta = p.get('window')
        if delta is not None:
            ctx.constrain(z3.And(now - exp >= -delta, now - exp <= delta))
        cover_if(ctx, 'equality-instant', now == exp)
        cover_if(ctx, 'negative-offset', B32(off) < 0)
        cover_if(ctx, 'leap-day', z3.And(B32(mo) == 2, B32(d) == 29))
    else:
        now = ctx.int('now', 0, 1 << 34)
        exp = exp if isinstance(exp, int) else z3.simplify(exp).as_signed_long()
        if now == exp:
            ctx.cover('equality-instant')
    # the configured instant may carry a sub-second part; `to` is a whole second, so the decision is that of the whole seconds
    now_ns = ctx.int('now_ns', 0, 999_999_999) if p.get('subsec') else 0
    r = ctx.impl.is_removal(to, ob, now, now_ns=now_ns)
    want = (I64(now) >= exp) if ctx.symbolic else (now >= exp)
    if r is True or r is False:
        ctx.cover('expired' if r else 'not-expired')
        ctx.check(want if r else b_not(want), f'is_removal = {r} but now >= `to` at the offset is {not r} for some instant on this path',
                  'expiry-decision-wrong')
    else:
        # the implementation returned the comparison itself (no branch on it): same obligation, as one formula
        cover_if(ctx, 'expired', r)
        cover_if(ctx, 'not-expired', z3.Not(r))
        ctx.check(r == want, 'is_removal differs from now >= `to` at the configured offset', 'expiry-decision-wrong')


@harness('c05_monotone', covers=['flips-between'])
def c05_monotone(ctx, p):
    to, (y, mo, d, h, mi, s) = to_fields(ctx, p)
    ob, off = offset_bytes(ctx, p)
    if ctx.symbolic:
        ctx.constrain(valid_civil(y, mo, d, h, mi, s))
        ctx.constrain(z3.And(B32(y) >= 1970, B32(y) <= 2200))
    n1 = ctx.int('now1', 0, 1 << 34)
    n2 = ctx.int('now2', 0, 1 << 34)
    ctx.constrain(n1 <= n2)
    r1 = ctx.impl.is_removal(to, ob, n1)
    r2 = ctx.impl.is_removal(to, ob, n2)
    zb = lambda v: v if is_sym(v) else z3.BoolVal(bool(v))
    if is_sym(r1) or is_sym(r2):
        cover_if(ctx, 'flips-between', z3.And(z3.Not(zb(r1)), zb(r2)))
        ctx.check(z3.Not(z3.And(zb(r1), z3.Not(zb(r2)))), 'removed at an earlier instant but kept at a later one', 'not-monotone')
    else:
        if r1 is False and r2 is True:
            ctx.cover('flips-between')
        ctx.check(not (r1 is True and r2 is False), 'removed at an earlier instant but kept at a later one', 'not-monotone')


MALFORMED = [
    # (label, to-bytes builder) - each separator / shape class of the statement
    ('missing-attribute', None), ('valueless', 'VALUELESS'), ('date-only', '2001-01-01'), ('no-seconds', '2001-01-01 00:00'),
    ('T-separator', '2001-01-01T00:00:00'), ('slashes', '2001/01/01 00:00:00'), ('dots-in-time', '2001-01-01 00.00.00'),
    ('trailing-zone', '2001-01-01 00:00:00 +00:00'), ('trailing-Z', '2001-01-01 00:00:00Z'), ('trailing-text', '2001-01-01 00:00:00x'),
    ('month-13', '2001-13-01 00:00:00'), ('month-00', '2001-00-10 00:00:00'), ('day-32', '2001-01-32 00:00:00'), ('day-00', '2001-01-00 00:00:00'),
    ('feb-30', '2001-02-30 00:00:00'), ('feb-29-nonleap', '2001-02-29 00:00:00'), ('hour-24', '2001-01-01 24:00:00'), ('minute-60', '2001-01-01 00:60:00'),
    ('second-61', '2001-01-01 00:00:61'), ('empty', ''), ('text', 'yesterday'), ('two-digit-year-only', '01-01-01'),
]
BAD_OFFSETS = ['', 'UTC', 'Z', '+0:00', '+00', '+00:0', '00:00', '+24:00x', '+aa:bb', '+00:60', '++00:00', '+00:00 x', '+0000Z']


@harness('c05_malformed', covers=['malformed-to', 'malformed-offset', 'symbolic-separator'])
def c05_malformed(ctx, p):
    now = 1 << 40  # far in the future: every well-formed `to` up to year 9999 would be expired
    if p['kind'] == 'to':
        ctx.cover('malformed-to')
        v = p['to']
        if v is None:
            r = ctx.impl.is_removal(None, list(b'+00:00'), now, has_to=False)
        elif v == 'VALUELESS':
            r = ctx.impl.is_removal(None, list(b'+00:00'), now)
        else:
            r = ctx.impl.is_removal(list(v.encode()), list(b'+00:00'), now)
        ctx.check(r is False, f'malformed `to` {v!r} makes the element ready', 'malformed-to-ready')
    elif p['kind'] == 'sep':
        # one separator position of a well-formed value replaced by an arbitrary other byte
        ctx.cover('symbolic-separator')
        base = list(b'2001-01-01 00:00:00')
        pos = p['pos']
        b = ctx.bytes('sep', 1, exclude=(base[pos],))[0]
        if base[pos] == 32:
            # chrono accepts any run of Unicode white space where the format has a blank
            ctx.constrain(b_not(b_or(b_eq(b, x) for x in (9, 10, 11, 12, 13))))
        v = base[:pos] + [b] + base[pos + 1:]
        r = ctx.impl.is_removal(v, list(b'+00:00'), now)
        ctx.check(r is False, f'`to` with another byte at separator position {pos} makes the element ready', 'malformed-to-ready')
    else:
        ctx.cover('malformed-offset')
        r = ctx.impl.is_removal(list(p.get('to', '2001-01-01 00:00:00').encode()), list(p['offset'].encode()), now)
        ctx.check(r is False, f"unparseable offset {p['offset']!r} makes the element ready", 'malformed-offset-ready')


@harness('c05_pipeline', covers=['removed', 'kept'])
def c05_pipeline(ctx, p):
    """the same decision through the real clean: which attribute is read, which offset is appended, what the registry does"""
    cfg = props_pipe.base_cfg(tl_offset=list(p['offset'].encode()), now=p['now'])
    if p.get('subsec'):
        cfg['now_ns'] = ctx.int('now_ns', 0, 999_999_999)   # any sub-second part: the decision is that of the whole second
    if 'raw' in p:
        src = list(("A<t " + p['raw'] + ">q</t>B").encode())   # the attribute text as given (quote-in-quote shapes)
    else:
        src = list(("A<t a='2001-01-01 00:00:00' " + p.get('extra', '') + "to='" + p['to'] + "' b='1999-01-01 00:00:00'>q</t>B").encode())
    out = ctx.impl.clean(src, [60], [62], cfg)
    if p['expect']:
        ctx.cover('removed')
        props_pipe.expect_exact(ctx, out, list(b'AB'), f"expired element not removed (to={p['to']} offset={p['offset']} now={p['now']})", 'expired-not-removed')
    else:
        ctx.cover('kept')
        props_pipe.expect_identity(ctx, src, out, f"unexpired element removed (to={p['to']} offset={p['offset']} now={p['now']})", 'unexpired-removed')


@harness('c01_to_value', covers=['to-value-evaluated'])
def c01_to_value(ctx, p):
    """totality of the expiry decision on arbitrary `to` text: a concrete prefix of a well-formed value, then k arbitrary UTF-8 bytes, then a suffix"""
    from props_front import no_panic
    to = list(p['prefix'].encode()) + ctx.bytes('v', p['k']) + list(p.get('suffix', '').encode())
    ctx.cover('to-value-evaluated')
    no_panic(ctx, lambda: ctx.impl.is_removal(to, list(p.get('offset', '+00:00').encode()), 1 << 40), 'TimeLimitedEvaluator::is_removal')


def c01_to_value_jobs(tier):
    full = '2024-12-31 23:59:59 +09:00 x'
    jobs = []
    cuts = (0, 10, 16, 17, 18, 19, 20, 26) if tier == 'quick' else range(0, len(full))
    for L in cuts:
        for k, suffix in ((3, ''), (3, 'zz')) if tier == 'quick' else ((1, ''), (2, ''), (3, ''), (4, ''), (3, 'zz'), (4, '9')):
            jobs.append(dict(harness='c01_to_value', label=f'to = {full[:L]!r} + U({k}) + {suffix!r}', params=dict(prefix=full[:L], k=k, suffix=suffix)))
    # unusable offsets under process time zones with daylight saving: civil times in the gap / in the repeated hour
    for tz, to in (('Europe/Berlin', '2024-03-31 02:30:00'), ('Europe/Berlin', '2024-10-27 02:30:00'), ('America/New_York', '2024-03-10 02:30:00'),
                   ('CET-1CEST,M3.5.0,M10.5.0/3', '2024-03-31 02:30:00')):
        for o in ('', 'local'):
            jobs.append(dict(harness='c01_to_value', label=f'to = {to!r}, offset {o!r}, TZ={tz}', params=dict(prefix=to, k=0, suffix='', offset=o, tz=tz)))
    return jobs


@harness('c05_sequence', covers=['second-call-differs-from-first'])
def c05_sequence(ctx, p):
    """the decision is a function of (to, offset, now) only: earlier evaluations with another configuration leave no trace"""
    from templates import expired
    to = p['to']
    results = []
    for off, now in p['calls']:
        r = ctx.impl.is_removal(list(to.encode()), list(off.encode()), now)
        want = expired(to, off, now)
        results.append(want)
        ctx.check(r is want or r == want, f'is_removal(to={to}, offset={off}, now={now}) = {r} after {len(results) - 1} earlier evaluation(s); expected {want}',
                  'decision-depends-on-earlier-calls')
    if len(set(results)) > 1:
        ctx.cover('second-call-differs-from-first')


def c05_jobs(tier, seed):
    import datetime
    jobs = []
    J = lambda h, label, **p: jobs.append(dict(harness=h, label=label, params=p))
    # decision with symbolic time-of-day + day, per month/century grid; offset fully symbolic in both spellings
    cents = ['19', '20'] if tier == 'quick' else ['19', '20', '21']
    months = ['01', '02', '03', '12'] if tier == 'quick' else ['%02d' % m for m in range(1, 13)]
    for colon in (True, False):
        for m in months:
            J('c05_decision', f'decision month={m} day/time/year symbolic, offset symbolic colon={colon}', fixed={'M': m}, colon=colon, window=90000)
    J('c05_decision', 'decision all 14 digits symbolic, offset +00:00, now within 2 s', offset='+00:00', window=2)
    J('c05_decision', 'decision all 14 digits symbolic, offset +00:00, now within 2 s with symbolic nanoseconds', offset='+00:00', window=2, subsec=True)
    J('c05_decision', 'decision date symbolic in 2024-02, offset -09:30, now with symbolic nanoseconds', fixed={'Y': '2024', 'M': '02'}, offset='-09:30', window=3, subsec=True)
    J('c05_decision', 'decision all 14 digits symbolic, offset symbolic, now within 1 day', window=86400)
    for off in ('-09:00', '+14:00', '-1200', '+0530', '+05:45'):
        J('c05_decision', f'decision date symbolic in 2024-02, offset {off}', fixed={'Y': '2024', 'M': '02'}, offset=off, window=200000)
    J('c05_monotone', 'monotone: two instants, to and offset symbolic', colon=True)
    t0 = 1704067200  # 2024-01-01T00:00:00Z
    for calls in ([('+09:00', t0 - 3600), ('+00:00', t0 - 3600)], [('+00:00', t0 - 3600), ('+09:00', t0 - 3600)], [('-05:00', t0 + 3600), ('+09:00', t0 + 3600), ('-05:00', t0 + 3600)],
                  [('JST', t0 + 10 ** 6), ('+09:00', t0 + 10 ** 6)], [('+09:00', t0 + 10 ** 6), ('JST', t0 + 10 ** 6)], [('+0900', t0 - 40000), ('+09:00', t0)]):
        J('c05_sequence', f'sequence of evaluations {calls}', to='2024-01-01 00:00:00', calls=[list(c) for c in calls])
    for label, v in MALFORMED:
        J('c05_malformed', f'malformed to: {label}', kind='to', to=v)
    for pos in (4, 7, 10, 13, 16):
        J('c05_malformed', f'malformed to: symbolic byte at separator {pos}', kind='sep', pos=pos)
    for o in BAD_OFFSETS:
        J('c05_malformed', f'malformed offset {o!r}', kind='offset', offset=o)
    # an unusable offset never falls back to the zone of the process: civil times that do not exist / exist twice in a DST zone
    for tz, to in (('Europe/Berlin', '2024-03-31 02:30:00'), ('Europe/Berlin', '2024-10-27 02:30:00'), ('America/New_York', '2024-03-10 02:30:00'),
                   ('CET-1CEST,M3.5.0,M10.5.0/3', '2024-03-31 02:30:00'), ('Asia/Tokyo', '2001-01-01 00:00:00')):
        for o in ('', ' ', 'local'):
            J('c05_malformed', f'malformed offset {o!r}, to={to} under TZ={tz}', kind='offset', offset=o, to=to, tz=tz)
    # pipeline probes at the boundary second, incl. negative offsets (deadline later in UTC) and both spellings
    def inst(s, off):
        t = datetime.datetime.strptime(s, '%Y-%m-%d %H:%M:%S').replace(tzinfo=datetime.timezone.utc)
        sign = -1 if off[0] == '-' else 1
        return int(t.timestamp()) - sign * (int(off[1:3]) * 3600 + int(off[-2:]) * 60)
    for to in ('2024-01-01 00:00:00', '2024-02-29 23:59:59', '2023-12-31 23:59:59', '2000-03-01 00:00:00'):
        for off in ('+00:00', '-09:00', '+09:00', '+0530', '-1200', '+14:00', '-03:30', '-0945'):
            e = inst(to, off)
            for dn, exp in ((-1, False), (0, True), (1, True)):
                if tier == 'quick' and dn == 1:
                    continue
                J('c05_pipeline', f'pipeline to={to} offset={off} now=deadline{dn:+d}s', to=to, offset=off, now=e + dn, expect=exp)
                if off in ('+00:00', '-0945') and dn < 1:
                    J('c05_pipeline', f'pipeline to={to} offset={off} now=deadline{dn:+d}s + symbolic nanoseconds', to=to, offset=off, now=e + dn, expect=exp, subsec=True)
        for extra in ("c='été 2023' ", "c=é ", "日付='x' "):
            e = inst(to, '+09:00')
            for dn, exp in ((-1, False), (0, True)):
                J('c05_pipeline', f'pipeline non-ASCII attribute before to: {extra!r} to={to} now=deadline{dn:+d}s', to=to, offset='+09:00', now=e + dn, expect=exp, extra=extra)
    # `to` only inside another attribute's quoted value / a value closed by the other quote character: no usable `to`, never ready
    far = 1 << 36
    for raw in ("note='was \"beta\" to=\"2001-01-01 00:00:00\" in the old markup'", "to=\"2001-01-01 00:00:00'", "to=\"2001-01-01 00:00:00' JST\"",
                "to='2001-01-01 00:00:00\" x='", "c=\"it's to='2001-01-01 00:00:00'\"", "to-be='2001-01-01 00:00:00'", "To='2001-01-01 00:00:00'"):
        J('c05_pipeline', f'pipeline quote-in-quote / near-miss attribute: {raw}', raw=raw, to='-', offset='+00:00', now=far, expect=False)
    J('c05_pipeline', "pipeline quote-in-quote before a real to", raw="c=\"it's\" to='2001-01-01 00:00:00' d='\"'", to='-', offset='+00:00', now=far, expect=True)
    return jobs
