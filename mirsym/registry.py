"""Per-property job lists (bounds per tier) and the texts that go into the evidence."""
from props_front import POOL, c09_shapes, c09_opaque_jobs, c08_doc_jobs
import props_pipe
import props_time
import props_list
import props_cli

COMMON_ASSUME = [
    'input strings are well-formed UTF-8 (Rust &str invariant), constrained by the exact RFC 3629 formula',
    'std/core/alloc functions called by chiritori are replaced by the hand-written models in mirsym/models.py (trusted base); '
    'validated on every run by the concrete differential against the native build and by native replay of sampled path models',
    'bounds: only inputs of the sizes listed in coverage.jobs are covered; nothing is claimed beyond them',
    'allocation failure and stack exhaustion are outside the model',
]


def J(harness, label, cap_s=None, **params):
    j = dict(harness=harness, params=params, label=label)
    if cap_s:
        j['cap_s'] = cap_s
    return j


def jobs_c07(tier, seed):
    jobs = []
    if tier == 'quick':
        pairs, nmax = [POOL[0], POOL[1], POOL[7], POOL[12]], 8
        extra = POOL[2 + seed % 10]
        if extra not in pairs:
            pairs.append(extra)
    else:
        pairs, nmax = POOL, 10
    for ds, de in pairs:
        for n in range(0, nmax + 1):
            jobs.append(J('c07_partition', f'U({n}) ds={ds!r} de={de!r}', n=n, ds=ds, de=de))
    # symbolic delimiters: every pair of valid UTF-8 strings of the given byte lengths
    sym = [(1, 1, 4), (2, 2, 5), (1, 2, 5), (2, 1, 5)] if tier == 'quick' else [(1, 1, 6), (2, 2, 6), (1, 2, 6), (2, 1, 6), (3, 3, 6), (2, 3, 6), (4, 4, 5)]
    for a, b, nmax2 in sym:
        for n in range(1, nmax2 + 1):
            jobs.append(J('c07_partition', f'U({n}) symbolic delimiters |ds|={a}B |de|={b}B', n=n, ds_len=a, de_len=b))
    jobs.sort(key=lambda j: j['params']['n'])
    return jobs


def jobs_c08(tier, seed):
    jobs = []
    if tier == 'quick':
        pairs, nmax = [POOL[0], POOL[5], POOL[4], POOL[6], POOL[12]], 8
        tpl = [POOL[1], POOL[2]]
        holes = [(a, b, c) for a in range(0, 3) for b in range(1, 3) for c in range(0, 2)]
    else:
        pairs, nmax = POOL, 9
        tpl = [POOL[1], POOL[2], POOL[3], POOL[8], POOL[10], POOL[11]]
        holes = [(a, b, c) for a in range(0, 4) for b in range(1, 4) for c in range(0, 3)]
    for ds, de in pairs:
        for n in range(0, nmax + 1):
            jobs.append(J('c08_recognition', f'U({n}) ds={ds!r} de={de!r}', n=n, ds=ds, de=de))
    for ds, de in tpl:
        for a, b, c in holes:
            jobs.append(J('c08_template', f'hole({a}) {ds!r} hole({b}) {de!r} hole({c})', ds=ds, de=de, a=a, b=b, c=c))
    sym = [(1, 1, 5), (2, 2, 5)] if tier == 'quick' else [(1, 1, 6), (2, 2, 6), (1, 2, 6), (2, 1, 6), (3, 3, 6)]
    for a, b, nmax2 in sym:
        for n in range(1, nmax2 + 1):
            jobs.append(J('c08_recognition', f'U({n}) symbolic delimiters |ds|={a}B |de|={b}B', n=n, ds_len=a, de_len=b))
    return jobs + c08_doc_jobs(tier)


def jobs_c09(tier, seed):
    jobs = []
    if tier == 'quick':
        shapes = c09_shapes(2, 2, seed, 260)
        pairs = [POOL[0]]
        extra = c09_shapes(1, 3, seed, 0)
    else:
        shapes = c09_shapes(2, 3, seed, 500)
        pairs = [POOL[0], POOL[1], POOL[6]]
        extra = []
        import random
        three = c09_shapes(3, 1, seed, 0)
    for ds, de in pairs:
        for i, sh in enumerate(shapes):
            lab = ' '.join((a['kind'][0] + str(a['sep_len']) + (f"e{a['eq_l']}{a['eq_r']}v{a['val_len']}" if a['kind'] != 'bare' else '')) for a in sh['attrs'])
            jobs.append(dict(harness='c09_grammar', params=dict(sh, ds=ds, de=de), label=f'tag {ds!r} pad{sh["pad_l"]} [{lab}]'))
    # the value of the deciding attribute is opaque as well: it decides as a whole string (blanks, '=' and line breaks inside it included)
    member = [dict(j, label='[decision probe] ' + j['label']) for j in props_pipe.c06_jobs(tier, seed) if j['params'].get('mode') == 'membership']
    return c09_opaque_jobs(tier) + member + jobs


def jobs_c10(tier, seed):
    lens = range(1, 6) if tier == 'quick' else range(1, 7)
    jobs = [J('c10_pairing', f'slot sequences of length {L}', len=L) for L in lens]
    # one name two letters long (suffix / prefix relations between names), and long runs of inert tags in front
    jobs += [J('c10_pairing', f'slot sequences of length {L}, y two letters', len=L, ylen=2) for L in (range(2, 4) if tier == 'quick' else range(2, 6))]
    # names are case-sensitive: letters of either case (two names may differ in nothing but the case of a letter)
    jobs += [J('c10_pairing', f'slot sequences of length {L}, names of either case', len=L, alpha='mixed') for L in (range(2, 5) if tier == 'quick' else range(2, 7))]
    for pre, lab in ((['o'] * 17, '17 unclosed openers'), (['c'] * 17, '17 stray closers'), (['o', 'c'] * 9, '18 mixed inert tags')):
        jobs.append(J('c10_pairing', f'{lab} in front of slot sequences of length 3', len=3, prefix=pre))
    # tags that carry attributes: the name alone decides the pairing (closing tags with words behind the name, values holding the other quote, line breaks)
    for pre, lab in ((['e'], 'a closer without a name </>'), (['b'], 'a closer with a blank behind the slash </ www>'), (['s'], 'a closer made of slashes <//>'), (['o', 'e', 'c', 'b'], 'mixed inert tags with nameless closers')):
        for L in ((2, 3) if tier == 'quick' else (2, 3, 4)):
            jobs.append(J('c10_pairing', f'{lab} in front of slot sequences of length {L}', len=L, prefix=pre))
    for osuf, csuf in ((" say='\"hi\"' o=\"d's\"", " done k='v'"), ("\n", "\n"), ("", "\n"), ("\n", ""), (" a=\"x='y'\"", " end"), (" k", " /"), (" say='\"hi\"'", ""), (" owner=\"the devs'\"", " x")):
        for L in (((3, 4) if osuf.startswith(' say') else (3,)) if tier == 'quick' else (2, 3, 4, 5)):
            jobs.append(J('c10_pairing', f'slot sequences of length {L}, tags dressed {osuf!r} {csuf!r}', len=L, open_suffix=osuf, close_suffix=csuf))
    return jobs


def jobs_c01_front(tier, seed):
    jobs = []
    if tier == 'quick':
        pairs, nmax, bmax = [POOL[0], POOL[6], POOL[7]], 6, 4
        sym = [(1, 1, 4), (2, 2, 4)]
    else:
        pairs, nmax, bmax = POOL, 8, 6
        sym = [(1, 1, 6), (2, 2, 6), (1, 2, 6), (2, 1, 6), (3, 3, 5)]
    for ds, de in pairs:
        for n in range(0, nmax + 1):
            jobs.append(J('c01_front', f'front U({n}) ds={ds!r} de={de!r}', n=n, ds=ds, de=de))
    for ds, de in ([POOL[0], POOL[1]] if tier == 'quick' else POOL):
        for b in range(1, bmax + 1):
            jobs.append(J('c01_front', f'tag body U({b}) + tail U(1) ds={ds!r} de={de!r}', body=b, tail=1, ds=ds, de=de))
    for a, b, nmax2 in sym:
        for n in range(1, nmax2 + 1):
            jobs.append(J('c01_front', f'front U({n}) symbolic delimiters |ds|={a}B |de|={b}B', n=n, ds_len=a, de_len=b))
    return jobs


def jobs_c01(tier, seed):
    # the exit status of the command is an observation point of C01 as well: the C20 option sets (the harness asserts exit status 0)
    return props_pipe.c01_pipe_jobs(tier, seed) + props_time.c01_to_value_jobs(tier) + props_cli.c20_jobs(tier, seed) + jobs_c01_front(tier, seed)


def jobs_pipe(prop):
    def f(tier, seed):
        jobs = props_pipe.struct_jobs(prop, tier, seed)
        if prop in ('C04', 'C01'):
            jobs += props_pipe.junk_jobs(prop, tier, seed)
        if prop == 'C04':
            jobs += props_pipe.pending_cfg_jobs(tier)
        jobs += cross_jobs(prop, tier, seed)
        jobs += props_pipe.transformed_jobs(prop, tier, seed)
        if prop != 'C04':
            jobs += props_pipe.scale_jobs(prop, tier)
        return jobs
    return f


def cross_jobs(prop, tier, seed):
    """one-element probes of the decision harnesses whose assertion is an instance of the pipeline property: a ready element (expired `to`, targeted
    name, any quoted value next to it) disappears completely (C03); a pending one leaves the text byte-identical (C02: nothing outside a ready extent
    is lost; C04: nothing ready => identity)"""
    if prop not in ('C02', 'C03', 'C04'):
        return []
    want_ready = prop == 'C03'
    out = [j for j in c09_opaque_jobs(tier) if bool(j['params']['ready']) == want_ready]
    out += [j for j in props_time.c05_jobs(tier, seed) if j['harness'] == 'c05_pipeline' and bool(j['params']['expect']) == want_ready]
    # the marker decision as well: a name value that is / is not, as a whole string, one of 0..2 symbolic targets (C06's membership probes)
    only = 'member' if want_ready else 'non-member'
    out += [dict(j, params=dict(j['params'], only=only)) for j in props_pipe.c06_jobs(tier, seed) if j['params'].get('mode') == 'membership' and (j['params']['targets'] or not want_ready)]
    return [dict(j, label='[decision probe] ' + j['label']) for j in out]


C20_COVERS = ('output-is-input-file', 'output-to-file', 'list-mode', 'list-json-mode', 'input-from-file', 'input-from-stdin', 'something-removed',
              'targets-from-file', 'targets-from-flags', 'no-target-option', 'clean-mode', 'output-to-stdout')
CROSS_OPTIONAL = ('ready-element-with-opaque-value', 'pending-element-with-opaque-value', 'value-contains-blank-or-eq', 'removed', 'kept',
                  'value-is-member', 'value-not-member', 'prefix-of-target', 'empty-target-set', 'skip-attribute', 'keyword-inside-value', 'unregistered-name', 'registered-name')


PIPE_ASSUME = COMMON_ASSUME + [
    'documents are the templates of mirsym/props_pipe.py (STRUCT / JUNK): concrete tag structure, symbolic hole bytes of the stated classes; '
    'delimiters < >, tag names t / m, target set {x}, current time 2024-01-01T00:00:00Z, offset +00:00 unless the job says otherwise',
    'chrono is replaced by mirsym/chrono_stub.py (strict strftime parse + instant comparison), pinned to the real chrono by the native differential',
    'the oracle (templates.evaluate) decides readiness and removable extents from the template structure, following C05/C06/C10/C11 statements',
]

PROPS = {
    'C07': dict(
        jobs=jobs_c07, tv=('front',),
        explanation='Bounded symbolic execution of tokenizer::tokenize (MIR regenerated from the working tree): for every valid UTF-8 '
                    'source of exactly N bytes (each N up to the bound) and each delimiter pair (concrete pool, and fully symbolic '
                    'delimiters of the stated byte lengths) z3 decides the partition / offset / delimiter assertions on every path.',
        assumptions=COMMON_ASSUME),
    'C08': dict(
        jobs=jobs_c08, tv=('front',),
        explanation='tokenize vs. a textbook leftmost-shortest scan written from the statement; both run on the same symbolic bytes, '
                    'z3 decides equality of the span lists on every path. U(N) for short delimiters, hole templates for the long '
                    'README-style delimiters (holes may contain delimiter characters), symbolic delimiters.',
        assumptions=COMMON_ASSUME),
    'C09': dict(
        jobs=jobs_c09, tv=('front', 'pipe'), covers_optional={t: ('value-is-member', 'value-not-member', 'prefix-of-target', 'empty-target-set', 'skip-attribute', 'keyword-inside-value',
                                                                 'unregistered-name', 'registered-name') for t in ('quick', 'thorough')},
        explanation='tokenize + element_parser::parse on tags generated from the grammar: the shape (number/kind of attributes, padding) is '
                    'enumerated, every name / value / separator / quote byte is symbolic (separators range over blank and line break, values '
                    'over every UTF-8 string without the closing quote and the end delimiter); z3 decides name and attribute spans. Second half: clean on ready / pending '
                    'elements carrying c="v" with v any 4 (thorough: 1..6) bytes: the removal decision and strategy do not depend on v (the solver can spell skip / unwrap-block / name).',
        assumptions=COMMON_ASSUME + ['names exclude blank, tab, CR, LF, =, quotes, / and the first byte of either delimiter']),
    'C10': dict(
        jobs=jobs_c10, tv=('front',),
        explanation='tokenize + parser::parse on every sequence of L slots over {open x, open y, close x, close y, close z, text} with x, y, z '
                    'symbolic one-letter names (equal or distinct: same-name nesting and crossing tags are inside one query) against the '
                    'stack rule of the statement; also: every token exactly once, in order, in the flattened tree.',
        assumptions=COMMON_ASSUME + ['delimiters < and >; names are single ASCII lower-case letters']),
    'C01': dict(
        jobs=jobs_c01, tv=('front', 'pipe', 'list'), deadline={'quick': 1500, 'thorough': 6000}, cli=True, covers_optional={t: C20_COVERS for t in ('quick', 'thorough')},
        explanation='No feasible path reaches a panic terminator (overflow checks on), a panicking std model call (slice/str index, unwrap, '
                    'replace_range, explicit panic!) or the step budget: tokenize, element_parser::parse on every tag token and parser::parse '
                    'on every valid UTF-8 source of N bytes for the delimiter pool and for symbolic delimiters; tag bodies U(N); clean / list / list_all (both formats) on the '
                    'structural, junk and wrapper-line templates, on a sample of template x transformer combinations, on the large fixed documents and under odd-string '
                    'configurations; is_removal on `to` values made of a prefix + U(k) + suffix and on DST-gap times under four process time zones; the C20 option sets (exit status 0).',
        assumptions=COMMON_ASSUME),
    'C02': dict(jobs=jobs_pipe('C02'), tv=('front', 'pipe'), assumptions=PIPE_ASSUME, covers_optional={t: CROSS_OPTIONAL for t in ('quick', 'thorough')},
                explanation='Real chiritori::clean (registry, strategy order, formatter set as wired in chiritori.rs) on documents with symbolic holes. '
                            'Assertion (one z3 query per path, alignment by dynamic programming over input/output bytes): the output is obtainable '
                            'from the input by deleting only bytes inside ready extents and blanks. Plus one-element decision probes (pending element with any quoted value / '
                            'deadline one second away at eight offsets, sub-second current time, quote-in-quote attributes): byte-identical output.'),
    'C03': dict(jobs=jobs_pipe('C03'), tv=('front', 'pipe'), assumptions=PIPE_ASSUME, covers_optional={t: CROSS_OPTIONAL for t in ('quick', 'thorough')},
                explanation='Same exploration as C02; assertion: the output is obtainable from the input *minus the ready extents* by deleting blanks only '
                            '(so no byte of a ready element survives and the non-blank text is exactly the input minus the extents). Plus one-element decision probes '
                            '(ready element with any quoted value next to the deciding attribute, deadline reached exactly / one second ago at eight offsets): the element is gone.'),
    'C04': dict(jobs=jobs_pipe('C04'), tv=('front', 'pipe'), assumptions=PIPE_ASSUME, covers_optional={t: CROSS_OPTIONAL for t in ('quick', 'thorough')},
                explanation='Same exploration plus junk templates (arbitrary UTF-8 holes, empty target set, current time before every `to`): whenever the '
                            'reference evaluation finds no ready element the output buffer equals the input byte for byte. Plus configuration-only pending documents and the one-element '
                            'decision probes of C05 / C09 with a pending outcome.'),
    'C14': dict(jobs=jobs_pipe('C14'), tv=('front', 'pipe'), assumptions=PIPE_ASSUME,
                kani=['proofs::indent_remover_covers_only_blanks', 'proofs::prev_line_break_remover_covers_only_blanks', 'proofs::next_line_break_remover_covers_only_blanks',
                      'proofs::empty_line_remover_covers_only_blanks'],
                explanation='Same exploration; assertion: alignment in which a blank may only be deleted if it is not strictly between the first and last '
                            'non-blank byte of its stretch (maximal run without removed bytes; per line inside an unwrapped body).'),
    'C11': dict(jobs=props_pipe.c11_jobs, tv=('front', 'pipe'), assumptions=PIPE_ASSUME,
                explanation='clean on block documents around one unwrap-block element with k = 0..6 lines between its tags (indentation and line text '
                            'symbolic, blank inner lines, nested ready / pending default elements): for k >= 2 the surviving non-blank lines are exactly '
                            'the input minus tag lines and wrapper lines; for k < 2 the output is byte-identical.'),
    'C06': dict(jobs=lambda tier, seed: props_pipe.c06_jobs(tier, seed) + [j for j in props_cli.c20_jobs(tier, seed) if 'target' in j['label'] or 'config file' in j['label']],
                cli=True, tv=('front', 'pipe'),
                covers_optional={t: ('output-is-input-file', 'output-to-file', 'list-mode', 'list-json-mode', 'input-from-file', 'input-from-stdin', 'something-removed') for t in ('quick', 'thorough')},
                assumptions=PIPE_ASSUME + [
                    'the command-line clause (no target option => empty set; clap defaults; config file lines and repeated flags) is decided by the C20 harness on the target-related option sets, with the stubs listed under C20'],
                explanation='clean on one-element probes: the target set (0..3 strings of <= 3 symbolic bytes, incl. the empty string) and the `name` value are '
                            'symbolic, ready <=> byte-for-byte membership (prefix / superstring / case variants are inside the same query); valueless or missing '
                            'name; `skip` as a bare attribute at every position among <= 3 attributes with symbolic separators, ready child still removed; '
                            'the keywords inside quoted values; symbolic tag names vs. the two configured names.'),
    'C12': dict(jobs=props_pipe.c12_jobs, tv=('front', 'pipe'), assumptions=PIPE_ASSUME + [
                    'indentation is counted in bytes (a tab is one column); whitespace-only inner lines may lose any number of blanks',
                    'nested unwrap blocks: each block removes the columns [T, T+S) of its own inner lines in original coordinates (union for lines inside both)',
                    'paths whose output line count differs from the expected one are dropped here (that is C13/C11 territory)'],
                explanation='clean on unwrap-block documents in which every indentation is a symbolic blank/tab hole in front of a fixed prefix (none, 2 spaces, '
                            'nested 2 spaces, tabs): per surviving inner line the removed columns are exactly [T, min(T+S, indent)) with T = tag indent, '
                            'S = max(0, indent(first inner line) - T); blocks on the first line, nested ready elements and nested unwrap blocks included.'),
    'C13': dict(jobs=props_pipe.c13_jobs, tv=('front', 'pipe'), assumptions=PIPE_ASSUME, kani=['proofs::finders_return_line_breaks'],
                explanation='clean on block documents: b blank lines before and a after a removed default-strategy block (a, b = 0..4, every blank line a symbolic '
                            'whitespace hole, indentation holes on every line, two blocks, pending parent, with/without final newline): surviving non-blank '
                            'lines byte-for-byte in order, and exactly a+b-[a>0 and b>0] blank lines between the neighbours.'),
    'C05': dict(jobs=lambda tier, seed: props_time.c05_jobs(tier, seed) + [j for j in props_cli.c20_jobs(tier, seed) if j['label'].startswith('current=')],
                cli=True, covers_optional={t: C20_COVERS for t in ('quick', 'thorough')},
                tv=('front', 'pipe', 'time'), assumptions=PIPE_ASSUME + [
                    'the command-line clause (the instant given as --time-limited-current, in every spelling chrono accepts, is the configured instant; TZ has no influence) is decided by the C20 harness on the time-related option sets, with the stubs listed under C20',
                    'years 1970..2200, seconds 00..59 (the leap second :60 is outside the claim), offsets up to 14:59 in both spellings',
                    'chrono itself is not executed symbolically: what is decided is chiritori\'s own evaluator (attribute read, concatenation with the '
                    'configured offset, format literal, direction and strictness of the comparison, fail-safe returns) over the chrono stub; the stub is '
                    'compared with the real chrono natively on a table of well-formed / malformed strings and on sampled path models every run'],
                explanation='TimeLimitedEvaluator::is_removal with the 14 digits of `to`, the offset (sign, digits, both spellings) and the current instant '
                            'symbolic: is_removal <=> now >= civil instant - offset against an independent Rata-Die reference in 64-bit arithmetic (equality '
                            'included); monotonicity with two symbolic instants; malformed classes (incl. one symbolic byte at each separator) never ready; '
                            'boundary-second probes through the real clean with negative / positive / colon-less offsets.'),
    'C19': dict(jobs=props_pipe.c19_jobs, tv=('front', 'pipe'), assumptions=PIPE_ASSUME + ['holes never contain delimiter characters (the statement restricts itself to such sources)'],
                explanation='Histories inside one symbolic path: clean(...clean(x, c1)..., cn) against clean(x, cn) for non-decreasing times (2000 / 2005 / 2015 '
                            'against expiries 2001 / 2010 / 2999) and growing target sets, compared modulo blanks by a DP alignment decided by z3; and '
                            'clean(clean(x, c), c) == clean(x, c) byte for byte. The second run works on the symbolic output of the first.'),
    'C18': dict(jobs=lambda tier, seed: props_pipe.c18_jobs(tier, seed) + [j for j in props_cli.c20_jobs(tier, seed) if j['label'].startswith('spelling:')],
                cli=True, covers_optional={t: ('output-is-input-file', 'output-to-file', 'list-mode', 'list-json-mode', 'input-from-file', 'input-from-stdin', 'something-removed',
                                               'targets-from-file', 'targets-from-flags', 'no-target-option', 'clean-mode', 'output-to-stdout') for t in ('quick', 'thorough')},
                tv=('front', 'pipe', 'list'), assumptions=PIPE_ASSUME + [
                    'the command-line clause (a spelling given as options reaches the library unchanged) is decided by the C20 harness on the spelling-related option sets, with the stubs listed under C20',
                    'no byte of a delimiter occurs in the text, the tag names or the attribute texts, and delimiters contain no line break (the statement\'s side condition, as a solver constraint)',
                    'the start delimiter does not begin with a blank or tab (such a tag is indistinguishable from indentation for the dedent; outside the claim)'],
                explanation='Relational: every template is rendered with < > / t m and with a second spelling - pool pairs with natural-language tag names, and fully '
                            'symbolic delimiters (1..4 bytes each, any valid UTF-8, identical start/end allowed) with symbolic tag names - sharing the same hole '
                            'variables; clean under the second spelling must equal the rewritten output of the first, list_all line ranges and statuses must be equal.'),
    'C15': dict(jobs=props_list.list_jobs('c15_list'), tv=('front', 'pipe', 'list'), assumptions=PIPE_ASSUME + [
                    'serde_json::to_string is stubbed (keeps the Vec<ListItem> structure); natively the JSON text is parsed back to the same structure',
                    'holes contain no line break and no ESC byte; tags do not sit on unwrap wrapper lines; first byte is not a line break'],
                explanation='chiritori::list (JSON and coloured pretty form) on the template space: Ready items = regions of the reference evaluation (one per default '
                            'element, two per unwrapped one, nested ones dropped), same order, first/last line by counting line breaks, highlighted pieces of the '
                            'pretty form equal the region text line by line; asking twice gives the same listing.'),
    'C16': dict(jobs=props_list.list_jobs('c16_render'), tv=('front', 'pipe', 'list'), assumptions=PIPE_ASSUME + [
                    'validity of the JSON text is serde_json\'s contract (stubbed), not decided here',
                    'the width of the line-number column (7 + " |") is taken from the existing rendering; columns are counted in bytes with tab = 4 (ASCII left of the markers)'],
                explanation='list_all in both formats against a reference renderer written from the statement (numbered source lines first..last, tabs expanded, _start / '
                            'end markers in the columns of the first / last removed byte, colour codes around the region pieces, item headers): byte equality of the '
                            'whole pretty listing and of every JSON code block, line_range and status.'),
    'C17': dict(jobs=props_list.list_jobs('c17_list_all'), tv=('front', 'pipe', 'list'), assumptions=PIPE_ASSUME + [
                    'serde_json::to_string is stubbed (keeps the Vec<ListItem> structure)', 'holes contain no line break; tags do not sit on unwrap wrapper lines'],
                explanation='chiritori::list_all (JSON) on templates with 0..4 pending siblings / children around and inside ready elements, both strategies: items = Ready '
                            'regions + Pending regions not inside a Ready or a larger Pending region, in source order; Ready subsequence identical to list.'),
    'C20': dict(jobs=props_cli.c20_jobs, cli=True, tv=('front', 'pipe', 'list'), assumptions=PIPE_ASSUME + [
                    'clap_builder (argv parsing), the operating system and chrono\'s zone handling are not executed symbolically: Args::parse is modelled as '
                    'clap\'s documented contract (command-line values, else the recorded default_value, else absent; flags default to false) over the argument '
                    'definitions that the real derive-generated augment_args MIR records, files / stdin / stdout are an in-memory model, Local::now a stub',
                    'the native differential runs the real binary on every job replayed, under TZ = UTC, Asia/Tokyo, America/Los_Angeles and unset',
                    'option values are printable ASCII without a leading "-"; --time-limited-current is one of three RFC 3339 strings or absent'],
                explanation='chiritori-cli `main` executed from its own MIR with the derive-generated clap glue and the library MIR in one interpreter: for each option '
                            'set (input file / stdin, stdout / --output / --output = input, five modes, targets by flags / config file / both / none, custom spelling, '
                            'times and offsets) the bytes written equal the library result for the configuration the options stand for; with no target option a '
                            'symbolic 6-byte marker name must never be removed (decides the option-defaults clause).'),
}
