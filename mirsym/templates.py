"""Documents with holes (DESIGN.md §6): the tag structure is concrete, the bytes of the holes are symbolic.

Template = list of parts
    'literal text'
    ('h', k, cls)                 hole of k bytes of class cls
    ('o', tagname, 'attr text')   opening tag   ds + tagname [+ ' ' + attr text] + de
    ('c', tagname)                closing tag   ds + '/' + tagname + de
    ('x', 'raw tag body')         malformed tag ds + raw + de : the reference treats it as plain text

Hole classes (relative to the delimiters of the template):
    any   every valid UTF-8 string (may contain delimiter characters: only for templates whose oracle does not depend on structure)
    nd    valid UTF-8 without the bytes of either delimiter and without '/' '=' quotes   (structure preserving; blanks and line breaks allowed)
    txt   nd without '\\n'
    nb    txt without ' ' and '\\t'   (non-blank)
    ind   ' ' | '\\t'
    ws    ' ' | '\\t' | '\\n'
    sp    ' '
"""
import datetime
from models import b_eq, b_and, b_or, b_not, bytes_eq


def render(ctx, tpl, ds, de):
    """returns (src bytes, parts) where parts = list of dict(kind, start, end, ...)"""
    src = []
    parts = []
    nh = 0
    dset = tuple(sorted(set(ds) | set(de)))
    for p in tpl:
        st = len(src)
        if isinstance(p, str):
            src += list(p.encode())
            parts.append(dict(kind='lit', start=st, end=len(src)))
        elif p[0] == 'h':
            _, k, cls = p
            name = f'h{nh}'
            nh += 1
            if cls == 'any':
                bs = ctx.bytes(name, k)
            elif cls == 'nd':
                bs = ctx.bytes(name, k, exclude=dset + (47, 61, 34, 39))
            elif cls == 'txt':
                bs = ctx.bytes(name, k, exclude=dset + (47, 61, 34, 39, 10))
            elif cls == 'nb':
                bs = ctx.bytes(name, k, exclude=dset + (47, 61, 34, 39, 10, 32, 9))
            elif cls == 'ind':
                bs = ctx.bytes(name, k, only=(32, 9))
            elif cls == 'ws':
                bs = ctx.bytes(name, k, only=(32, 9, 10))
            elif cls == 'sp':
                bs = ctx.bytes(name, k, only=(32,))
            else:
                raise KeyError(cls)
            src += bs
            parts.append(dict(kind='hole', cls=cls, start=st, end=len(src), name=name))
        elif p[0] == 'o':
            t = list(ds) + list(p[1].encode()) + (list((' ' + p[2]).encode()) if len(p) > 2 and p[2] else []) + list(de)
            src += t
            parts.append(dict(kind='open', name=p[1], attrs=p[2] if len(p) > 2 else '', start=st, end=len(src)))
        elif p[0] == 'c':
            src += list(ds) + [47] + list(p[1].encode()) + (list(p[2].encode()) if len(p) > 2 else []) + list(de)
            parts.append(dict(kind='close', name=p[1], start=st, end=len(src)))
        elif p[0] == 'pc':
            # a closing tag cut off inside its end delimiter (the file ends there): text - unless `keep` covers the whole delimiter
            keep = p[2]
            dechars = bytes(de).decode()            # (the cut is made between characters of the end delimiter, never inside one)
            src += list(ds) + [47] + list(p[1].encode()) + [32] + list(dechars[:keep].encode())
            if keep >= len(dechars):
                parts.append(dict(kind='close', name=p[1], start=st, end=len(src)))
            else:
                parts.append(dict(kind='lit', start=st, end=len(src)))
        elif p[0] == 'x':
            # a malformed tag (quote or '=' right after a closing quote, value-less '=' ...): plain text for the reference
            src += list(ds) + list(p[1].encode()) + list(de)
            parts.append(dict(kind='lit', start=st, end=len(src)))
        else:
            raise KeyError(p)
    try:
        ctx.note('document', list(src))   # for the evidence samples: the rendered document under the path's model
    except Exception:
        pass
    return src, parts


# ---------------------------------------------------------------- reference evaluation (from the statements)
def parse_attrs(text):
    """attribute text of a template tag (concrete, written by us in the simple forms  word  |  word='v'  |  word="v")"""
    out = []
    i, n = 0, len(text)
    while i < n:
        while i < n and text[i] in ' \n':
            i += 1
        if i >= n:
            break
        j = i
        while j < n and text[j] not in ' \n=':
            j += 1
        name = text[i:j]
        k = j
        while k < n and text[k] == ' ':
            k += 1
        if k < n and text[k] == '=':
            k += 1
            while k < n and text[k] == ' ':
                k += 1
            q = text[k]
            assert q in '"\'', text
            e = text.index(q, k + 1)
            out.append((name, text[k + 1:e]))
            i = e + 1
        else:
            out.append((name, None))
            i = j
    return out


def expired(to, offset, now):
    """C05 reference on concrete strings: ready iff `to` is exactly YYYY-MM-DD HH:MM:SS and now >= to at the offset"""
    import re
    if to is None:
        return False
    m = re.fullmatch(r'(\d{4})-(\d\d)-(\d\d) (\d\d):(\d\d):(\d\d)', to)
    o = re.fullmatch(r'([+-])(\d\d):?(\d\d)', offset)
    if not m or not o:
        return False
    y, mo, d, h, mi, s = map(int, m.groups())
    try:
        t = datetime.datetime(y, mo, d, h, mi, min(s, 59), tzinfo=datetime.timezone.utc)
    except ValueError:
        return False
    if s > 60:
        return False
    off = (int(o.group(2)) * 3600 + int(o.group(3)) * 60) * (1 if o.group(1) == '+' else -1)
    if int(o.group(3)) > 59:
        return False
    secs = int(t.timestamp()) + (s - min(s, 59)) - off
    return now >= secs


def elements(parts):
    """pair template tags with the stack rule of C10; returns list of elements dict(open, close, children) in document order"""
    root = []
    stack = []

    def cur():
        return stack[-1]['children'] if stack else root

    for p in parts:
        if p['kind'] == 'open':
            stack.append(dict(open=p, close=None, children=[]))
        elif p['kind'] == 'close':
            d = None
            for k in range(len(stack) - 1, -1, -1):
                if stack[k]['open']['name'] == p['name']:
                    d = k
                    break
            if d is None:
                continue
            while len(stack) > d + 1:
                e = stack.pop()
                cur().extend(e['children'])  # demoted opener: its children belong to the enclosing element
            e = stack.pop()
            e['close'] = p
            cur().append(e)
    while stack:
        e = stack.pop()
        cur().extend(e['children'])
    return root


def line_bounds(src, pos):
    """(start, end) of the line containing byte position pos; end excludes the '\\n'. Only concrete 10s are line breaks
    (holes that may contain line breaks are not used next to unwrap elements)."""
    s = pos
    while s > 0 and not (isinstance(src[s - 1], int) and src[s - 1] == 10):
        s -= 1
    e = pos
    while e < len(src) and not (isinstance(src[e], int) and src[e] == 10):
        e += 1
    return s, e


def is_concrete_blank_line(src, s, e):
    return all(isinstance(b, int) and b in (32, 9) for b in src[s:e])


def evaluate(src, parts, cfg):
    """returns (ready elements with extents, pending registered elements, all elements) per C02/C03/C05/C06/C11"""
    tl = bytes(cfg['tl_tag']).decode()
    rm = bytes(cfg['rm_tag']).decode()
    targets = {bytes(t).decode() for t in cfg['targets']}
    offset = bytes(cfg['tl_offset']).decode()
    ready, pending, allel = [], [], []

    def unwrap_extents(e):
        """C11: tags alone on their lines, >= 2 lines between them -> the four lines; else None (left untouched)"""
        o, c = e['open'], e['close']
        os_, oe = line_bounds(src, o['end'] - 1)   # a tag may span several lines: the opening wrapper line follows the line on which it ends
        cs, ce = line_bounds(src, c['start'])
        if oe >= cs:  # same line
            return None
        # lines strictly between
        lines = []
        p = oe + 1
        while p < cs:
            s, en = line_bounds(src, p)
            lines.append((s, en))
            p = en + 1
        if len(lines) < 2:
            return None
        w1, w2 = lines[0], lines[-1]
        return [(o['start'], w1[1]), (w2[0], c['end'])]

    def walk(els, inside_ready):
        for e in els:
            o = e['open']
            attrs = parse_attrs(o['attrs'])
            names = [a for a, _ in attrs]
            registered = o['name'] in (tl, rm)
            skip = 'skip' in names
            cond = False
            if o['name'] == rm:  # the marker registration wins if both names are equal (documented: one registry)
                v = [val for a, val in attrs if a == 'name']
                cond = bool(v) and v[0] is not None and v[0] in targets
            elif o['name'] == tl:
                v = [val for a, val in attrs if a == 'to']
                cond = bool(v) and expired(v[0], offset, cfg['now'])
            unwrap = 'unwrap-block' in names
            ext = None
            if registered and not skip:
                ext = unwrap_extents(e) if unwrap else [(o['start'], e['close']['end'])]
            info = dict(e, registered=registered, skip=skip, cond=cond, unwrap=unwrap, extents=ext, inside_ready=inside_ready)
            allel.append(info)
            is_ready = registered and not skip and cond and ext is not None
            if is_ready:
                ready.append(info)
            elif registered and not skip and not cond and ext is not None:
                pending.append(info)
            walk(e['children'], inside_ready or (is_ready and not unwrap))

    walk(elements(parts), False)
    return ready, pending, allel


def extent_mask(n, ready):
    m = [False] * n
    for e in ready:
        for s, en in e['extents']:
            for i in range(s, en):
                m[i] = True
    return m


# ---------------------------------------------------------------- alignment by dynamic programming
def same(a, b):
    """equality of two byte values as bool | z3 Bool; identical terms are equal without asking"""
    if a is b:
        return True
    return b_eq(a, b)


def is_blank(b):
    return b_or(b_eq(b, v) for v in (32, 9, 10))


def align(inp_pos, inp, out, deletable):
    """Is `out` obtainable from the bytes inp[i] (i in inp_pos, in order) by deleting only positions where deletable(i)?
    Returns bool | z3 Bool.  f[j] over a rolling row; band-limited by the number of deletions."""
    n, m = len(inp_pos), len(out)
    if m > n:
        return False
    if all(isinstance(inp[i], int) for i in inp_pos) and all(isinstance(b, int) for b in out):
        # everything concrete (large fixed documents): the same recurrence over the *set* of reachable output positions
        # (small in practice), instead of one formula per cell
        d0 = n - m
        reach = {0}
        conc = True
        for k, i in enumerate(inp_pos, 1):
            dele = deletable(i)
            if not isinstance(dele, bool):
                conc = False
                break
            nxt = set()
            for j in reach:
                if dele and j >= k - d0:
                    nxt.add(j)
                if j < m and inp[i] == out[j]:
                    nxt.add(j + 1)
            reach = nxt
            if not reach:
                return False
        if conc:
            return m in reach
    d = n - m
    # f[k][j]: inp_pos[:k] can produce out[:j]; only j in [k-d, k] can be true
    prev = {0: True}
    for k in range(1, n + 1):
        i = inp_pos[k - 1]
        cur = {}
        dele = deletable(i)
        for j in range(max(0, k - d), min(k, m) + 1):
            alts = []
            if j in prev and prev[j] is not False and dele is not False:  # delete inp[i]
                alts.append(b_and([prev[j], dele]))
            if j >= 1 and (j - 1) in prev and prev[j - 1] is not False:  # keep inp[i] as out[j-1]
                eq = same(inp[i], out[j - 1])
                if eq is not False:
                    alts.append(b_and([prev[j - 1], eq]))
            v = b_or(alts)
            if v is not False:
                cur[j] = v
        prev = cur
        if not prev:
            return False
    return prev.get(m, False)
