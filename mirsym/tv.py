"""Translator validation, every run (DESIGN.md §4.6): concrete inputs are pushed through the MIR interpreter (all bytes
concrete, so it is a plain interpreter) and through the native build; the observables must be identical."""
import os, json, random, glob
import engine, models
import impl as implmod
from engine import Interp, Unsupported

FIX = '/chiritori/src/integration-test-fixtures/'

# the repository's own test inputs (tokenizer / tag / parser / remover / formatter tests) + README style samples
FRONT = [
    ('<', '>', '<div>hoge</div>'), ('<', '>', 'foo<bar>baz</bar>qux'), ('<!--', '-->', '<!-- hello-world -->'),
    ('<!-- <', '> -->', 'a<!-- <time-limited to="2019-12-31 23:59:59"> -->x<!-- </time-limited> -->b'),
    ('<', '>', "<tag a='1' b=\"2\" c>"), ('<', '>', 'あ<い>う</い>え'), ('<', '>', '<a><b></a></b>'), ('<', '>', '</x><y>'),
    ('<', '>', 'a < > b'), ('/* <', '> */', 'x /* <removal-marker name="f"> */ y /* </removal-marker> */ z'),
    ('<', '>', "<a to='x'\nc='y'>"), ('<', '>', '<<a>>'), ('<<', '>>', '<<a>><</a>>'), ('|', '|', '|a|x|/a|'),
    ('<', '>', '<a  =  "1" b>'), ('<', '>', '<a b= c d>'), ('<', '>', '<=a>'), ('<', '>', '<a "q">'), ('<', '>', ''),
    ('<', '>', 'plain text only'), ('<', '>', '<'), ('<', '>', '<a'), ('«', '»', '«t»é«/t»'), ('<', '>', 'x<a>y<a>z</a>w</a>v'),
    ('<', '>', '<a><b><c></a>'), ('<', '>', '</a></a><a></a>'),
]

DOCS = [
    "a\n  <m name='x'>\n  foo\n  </m>\nb\n<m name='y'>q</m>\n",
    "foo\nbar\n<t to='2001-01-01 00:00:00'>\na\nb\nc\n</t>\nbaz",
    "foo\nbar\n<t to='2999-01-01 00:00:00'>\na\n</t>\nbaz",
    "x\n<m name='x' unwrap-block>\nif (a) {\n  b();\n  c();\n}\n</m>\ny\n",
    "x\n  <m name='x' unwrap-block>\n  if (a) {\n    b();\n\n    c();\n  }\n  </m>\ny\n",
    "<m name='x' unwrap-block> {b} </m>\nbaz\n", "p <m name='x'>q</m> r", "<m name='x' skip>\nq\n</m>\n",
    "a\n<m name='x'>\n<m name='y'>\nin\n</m>\n</m>\nb", "a\n<m name='n'>\n<m name='x'>\nin\n</m>\nkeep\n</m>\nb",
    "\n<m name='x'>\nq\n</m>\n\n\nz", "a\n\n<m name='x'>\nq\n</m>\n\nz", "a\n\t<m name='x'>\n\tq\n\t</m>\nz\n",
    "<u name='x'>q</u>", "a<m name>b</m>c", "a<m name='x'>b", "日本\n<m name='x'>\n語\n</m>\n終",
    "x\n<m name='x' unwrap-block>\nA\n<m name='x'>\nB\n</m>\nC\n</m>\ny\n",
    "x\n<t to='2001-01-01 00:00:00' unwrap-block>\n{\n  <m name='n'>\n  k\n  </m>\n}\n</t>\ny\n",
]


def random_doc(rnd):
    atoms = ["<m name='x'>", "<m name='n'>", "</m>", "<t to='2001-01-01 00:00:00'>", "<t to='2999-01-01 00:00:00'>", "</t>",
             "<m name='x' unwrap-block>", "<m name='x' skip>", "<u>", "</u>", "\n", "\n", "\n", "  ", "\t", "foo", "bar();", "é", "{", "}",
             " ", "<", ">", "x"]
    return ''.join(rnd.choice(atoms) for _ in range(rnd.randrange(3, 22)))


def cfg_for(doc):
    return implmod.default_cfg(tl_tag=list(b't'), rm_tag=list(b'm'), targets=[list(b'x'), list(b'y')])


def concrete_differential(paths, families, seed, log):
    crate = engine.load_crate(paths['mir'], paths['repo'], paths['src'])
    I = Interp(crate, models.Models())
    I.start_path([])
    mir = implmod.MirImpl(I)
    nat = implmod.NativeImpl(paths['native_dev'])
    rnd = random.Random(seed * 7919 + 17)
    n = 0
    mism = []
    unenc = 0

    def both(fn, args):
        nonlocal n, unenc
        try:
            try:
                getattr(mir, fn)(**args)
                a = mir.log[-1][2]
            except implmod.ImplPanic as e:
                a = dict(panic=True)
        except Unsupported as e:
            unenc += 1
            return
        except Exception as e:   # an encoder fault on a concrete input: counted, reported by the caller as inconclusive
            unenc += 1
            mism.append(dict(fn=fn, engine_error=repr(e)[:200]))
            return
        try:
            b = nat.replay_logged(fn, args)
        except implmod.ImplPanic as e:
            b = dict(panic=True)
        n += 1
        if json.dumps(a, sort_keys=True) != json.dumps(b, sort_keys=True):
            mism.append(dict(fn=fn, args={k: (implmod_show(v)) for k, v in args.items()}, mir=json.dumps(a)[:600], native=json.dumps(b)[:600]))

    def implmod_show(v):
        if isinstance(v, list) and v and all(isinstance(x, int) for x in v):
            try:
                return bytes(v).decode()
            except Exception:
                return v
        return v

    try:
        if 'front' in families:
            for ds, de, src in FRONT:
                for fn in ('tokenize', 'tags', 'tree'):
                    both(fn, dict(src=list(src.encode()), ds=list(ds.encode()), de=list(de.encode())))
            for _ in range(12):
                d = random_doc(rnd)
                both('tree', dict(src=list(d.encode()), ds=[60], de=[62]))
        if 'pipe' in families or 'list' in families:
            docs = list(DOCS)
            for f in sorted(glob.glob(paths['repo'] + FIX + '*.input.js')):
                docs.append(open(f).read())
            docs += [random_doc(rnd) for _ in range(14)]
            for d in docs:
                fixture = 'time-limited' in d or 'removal-marker' in d
                if fixture:
                    ds, de = list(b'/* <'), list(b'> */')
                    cfg = implmod.default_cfg(targets=[list(b'feature1')])
                    if '<!-- <' in d:
                        ds, de = list(b'<!-- <'), list(b'> -->')
                else:
                    ds, de, cfg = [60], [62], cfg_for(d)
                if 'pipe' in families:
                    both('clean', dict(src=list(d.encode()), ds=ds, de=de, cfg=cfg))
                if 'list' in families:
                    for al in (False, True):
                        for fmt in ('json', 'pretty'):
                            both('list', dict(src=list(d.encode()), ds=ds, de=de, cfg=cfg, all=al, format=fmt))
        if 'fmt' in families:
            for c, pos in [("foo\n    \n    \n    bar", [[8, None]]), ("    hoge\n\n  foo", [[9, None]]), ("  hoge\n \n    \n    foo", [[12, None]]),
                           ("foo\n    \n  \n    bar", [[7, None]]), ("foo\n\n  fuga\n  piyo\n\nbar", [[4, 1], [19, 0]]), ("a\n\nb", [[2, None]]),
                           ("", []), ("abc", [[0, None], [3, None]])]:
                both('format', dict(content=list(c.encode()), pos=pos))
        if 'time' in families:
            import tv_time
            for to, off, now in tv_time.table(rnd):
                both('is_removal', dict(to=None if to is None else list(to.encode()), offset=list(off.encode()), now=now))
    finally:
        nat.close()
    log(f'translator validation: {n} concrete calls through MIR interpreter and native build, {len(mism)} mismatches, {unenc} unencoded')
    return dict(n=n, mismatches=mism, unencoded=unenc)
