//! Runs the *real* chiritori on concrete inputs and prints the observables as JSON lines.
//! One request per stdin line (JSON), one response per stdout line. Used for (1) native replay of solver
//! counterexamples and (2) translation validation of the MIR interpreter.
use chiritori::chiritori::{
    clean, list, list_all, ChiritoriConfiguration, ListFormat, RemovalMarkerConfiguration,
    TimeLimitedConfiguration,
};
use chiritori::code::formatter::{self, BlockFormatter, Formatter};
use chiritori::code::remover::removal_evaluator::time_limited_evaluator::TimeLimitedEvaluator;
use chiritori::code::remover::removal_evaluator::RemovalEvaluator;
use chiritori::{element_parser, parser, tokenizer};
use serde_json::{json, Value};
use std::collections::HashSet;
use std::io::{BufRead, Write};
use std::panic::{catch_unwind, AssertUnwindSafe};
use std::rc::Rc;

fn bytes_of(v: &Value) -> Vec<u8> {
    v.as_array().unwrap().iter().map(|x| x.as_u64().unwrap() as u8).collect()
}
fn string_of(v: &Value) -> String {
    String::from_utf8(bytes_of(v)).expect("request strings must be valid UTF-8")
}
fn jb(s: &str) -> Value {
    Value::Array(s.as_bytes().iter().map(|b| json!(*b)).collect())
}
fn span(base: &str, s: &str) -> Value {
    let b = base.as_ptr() as usize;
    let p = s.as_ptr() as usize;
    if p >= b && p + s.len() <= b + base.len() {
        json!([p - b, p - b + s.len()])
    } else {
        json!([-1, -1])
    }
}
fn mk_now(secs: i64, nanos: u32) -> chrono::DateTime<chrono::Local> {
    chrono::DateTime::<chrono::Utc>::from_timestamp(secs, nanos).unwrap().with_timezone(&chrono::Local)
}
fn config(c: &Value) -> ChiritoriConfiguration {
    ChiritoriConfiguration {
        time_limited_configuration: TimeLimitedConfiguration {
            tag_name: string_of(&c["tl_tag"]),
            time_offset: string_of(&c["tl_offset"]),
            current: mk_now(c["now"].as_i64().unwrap(), c["now_ns"].as_u64().unwrap_or(0) as u32),
        },
        removal_marker_configuration: RemovalMarkerConfiguration {
            tag_name: string_of(&c["rm_tag"]),
            targets: c["targets"].as_array().unwrap().iter().map(string_of).collect::<HashSet<_>>(),
        },
    }
}
fn tok_json(src: &str, t: &tokenizer::Token) -> Value {
    let k = match t.kind {
        tokenizer::TokenKind::Element(_) => "E",
        tokenizer::TokenKind::Text => "T",
    };
    let sp = span(src, t.value);
    json!({"kind": k, "bs": t.byte_start, "be": t.byte_end, "cs": t.start, "ce": t.end, "vs": sp[0], "ve": sp[1]})
}
fn tok_index(tokens: &Vec<tokenizer::Token>, t: &tokenizer::Token) -> usize {
    let base = tokens.as_ptr() as usize;
    let p = t as *const tokenizer::Token as usize;
    (p - base) / std::mem::size_of::<tokenizer::Token>()
}
fn el_json(src: &str, e: &element_parser::Element) -> Value {
    json!({"name": span(src, e.name),
           "attrs": e.attrs.iter().map(|a| json!([span(src, a.name), a.value.map(|v| span(src, v))])).collect::<Vec<_>>()})
}
fn parts_json(src: &str, tokens: &Vec<tokenizer::Token>, parts: &Vec<parser::ContentPart>) -> Value {
    Value::Array(
        parts
            .iter()
            .map(|p| match p {
                parser::ContentPart::Text(t) => json!(["T", tok_index(tokens, t.token)]),
                parser::ContentPart::Element(e) => json!([
                    "E",
                    tok_index(tokens, e.start_token),
                    tok_index(tokens, e.end_token),
                    el_json(src, &e.start_element),
                    parts_json(src, tokens, &e.children)
                ]),
            })
            .collect(),
    )
}

fn handle(req: &Value) -> Value {
    let f = req["fn"].as_str().unwrap();
    match f {
        "tokenize" => {
            let (src, ds, de) = (string_of(&req["src"]), string_of(&req["ds"]), string_of(&req["de"]));
            let toks = tokenizer::tokenize(&src, &ds, &de);
            json!({"tokens": toks.iter().map(|t| tok_json(&src, t)).collect::<Vec<_>>()})
        }
        "tags" => {
            let (src, ds, de) = (string_of(&req["src"]), string_of(&req["ds"]), string_of(&req["de"]));
            let toks = tokenizer::tokenize(&src, &ds, &de);
            let tags: Vec<Value> = toks
                .iter()
                .map(|t| match element_parser::parse(t) {
                    Some(e) => el_json(&src, &e),
                    None => Value::Null,
                })
                .collect();
            json!({"tokens": toks.iter().map(|t| tok_json(&src, t)).collect::<Vec<_>>(), "tags": tags})
        }
        "tree" => {
            let (src, ds, de) = (string_of(&req["src"]), string_of(&req["ds"]), string_of(&req["de"]));
            let toks = tokenizer::tokenize(&src, &ds, &de);
            let parts = parser::parse(&toks);
            json!({"tokens": toks.iter().map(|t| tok_json(&src, t)).collect::<Vec<_>>(), "tree": parts_json(&src, &toks, &parts)})
        }
        "clean" => {
            let (src, ds, de) = (string_of(&req["src"]), string_of(&req["ds"]), string_of(&req["de"]));
            let out = clean(Rc::new(src), (ds, de), config(&req["cfg"]));
            json!({"out": jb(&out)})
        }
        "list" => {
            let (src, ds, de) = (string_of(&req["src"]), string_of(&req["ds"]), string_of(&req["de"]));
            let fmt = if req["format"].as_str().unwrap() == "json" { ListFormat::JSON } else { ListFormat::PrettyString };
            let r = if req["all"].as_bool().unwrap() {
                list_all(Rc::new(src), (ds, de), config(&req["cfg"]), fmt)
            } else {
                list(Rc::new(src), (ds, de), config(&req["cfg"]), fmt)
            };
            match r {
                Ok(s) => json!({"out": jb(&s)}),
                Err(_) => json!({"err": "ListError"}),
            }
        }
        "format" => {
            let content = string_of(&req["content"]);
            let pos: Vec<(usize, Option<usize>)> = req["pos"]
                .as_array()
                .unwrap()
                .iter()
                .map(|p| (p[0].as_u64().unwrap() as usize, p[1].as_u64().map(|x| x as usize)))
                .collect();
            let fs: Vec<Box<dyn Formatter>> = vec![
                Box::new(formatter::indent_remover::IndentRemover {}),
                Box::new(formatter::empty_line_remover::EmptyLineRemover {}),
                Box::new(formatter::prev_line_break_remover::PrevLineBreakRemover {}),
                Box::new(formatter::next_line_break_remover::NextLineBreakRemover {}),
            ];
            let bs: Vec<Box<dyn BlockFormatter>> = vec![Box::new(formatter::block_indent_remover::BlockIndentRemover {})];
            let out = formatter::format(&content, &pos, &fs, &bs);
            json!({"out": jb(&out)})
        }
        "is_removal" => {
            // the real TimeLimitedEvaluator through the real chrono
            let ev = TimeLimitedEvaluator { current_time: mk_now(req["now"].as_i64().unwrap(), req["now_ns"].as_u64().unwrap_or(0) as u32), time_offset: string_of(&req["offset"]) };
            let to = if req["to"].is_null() { None } else { Some(string_of(&req["to"])) };
            let attrs = match (&to, req["has_to"].as_bool().unwrap_or(true)) {
                (_, false) => vec![],
                (Some(v), true) => vec![element_parser::Attribute { name: "to", value: Some(v.as_str()) }],
                (None, true) => vec![element_parser::Attribute { name: "to", value: None }],
            };
            let el = element_parser::Element { name: "t", attrs };
            json!({"out": ev.is_removal(&el)})
        }
        "pretty_item" => {
            let content = string_of(&req["content"]);
            let lr = if req["line_range"].is_null() { None } else { Some((req["line_range"][0].as_u64().unwrap() as usize, req["line_range"][1].as_u64().unwrap() as usize)) };
            let out = chiritori::code::list::build_pretty_string_item(
                &content,
                req["start"].as_u64().unwrap() as usize,
                req["end"].as_u64().unwrap() as usize,
                req["is_removal"].as_bool().unwrap(),
                req["coloring"].as_bool().unwrap(),
                lr,
            );
            json!({"out": jb(&out)})
        }
        _ => json!({"error": format!("unknown fn {}", f)}),
    }
}

fn main() {
    std::panic::set_hook(Box::new(|_| {}));
    let stdin = std::io::stdin();
    let stdout = std::io::stdout();
    for line in stdin.lock().lines() {
        let line = line.unwrap();
        if line.trim().is_empty() {
            continue;
        }
        let req: Value = serde_json::from_str(&line).unwrap();
        let res = catch_unwind(AssertUnwindSafe(|| handle(&req)));
        let out = match res {
            Ok(v) => v,
            Err(e) => {
                let msg = if let Some(s) = e.downcast_ref::<String>() { s.clone() } else if let Some(s) = e.downcast_ref::<&str>() { s.to_string() } else { "panic".to_string() };
                json!({"panic": msg})
            }
        };
        let mut o = stdout.lock();
        writeln!(o, "{}", out).unwrap();
        o.flush().unwrap();
    }
}
