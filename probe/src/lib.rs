//! Conformance probes for the std models of mirsym (tools/modelcheck.py): every function is executed natively and by the MIR
//! interpreter on the same concrete inputs; the results must be identical. Not part of any property check - it validates the
//! trusted base (mirsym/models.py) and finds std calls that have no model yet.
#![allow(clippy::all)]
#![allow(unused_variables)]
use std::collections::{HashMap, HashSet};

macro_rules! sprobes {
    (($a:ident, $b:ident, $i:ident, $j:ident) $($name:ident => $body:expr;)*) => {
        $(pub fn $name($a: &str, $b: &str, $i: usize, $j: usize) -> String { $body })*
        pub fn call_s(n: &str, a: &str, b: &str, i: usize, j: usize) -> Option<String> {
            match n { $(stringify!($name) => Some($name(a, b, i, j)),)* _ => None }
        }
        pub const S_NAMES: &[&str] = &[$(stringify!($name)),*];
    };
}
macro_rules! vprobes {
    (($a:ident, $b:ident, $i:ident, $j:ident) $($name:ident => $body:expr;)*) => {
        $(pub fn $name($a: &str, $b: &str, $i: usize, $j: usize) -> Vec<usize> { $body })*
        pub fn call_v(n: &str, a: &str, b: &str, i: usize, j: usize) -> Option<Vec<usize>> {
            match n { $(stringify!($name) => Some($name(a, b, i, j)),)* _ => None }
        }
        pub const V_NAMES: &[&str] = &[$(stringify!($name)),*];
    };
}

fn o(x: Option<usize>) -> Vec<usize> {
    match x {
        Some(v) => vec![1, v],
        None => vec![0],
    }
}
fn bo(x: bool) -> Vec<usize> {
    vec![x as usize]
}
fn first_char(s: &str) -> char {
    s.chars().next().unwrap_or('x')
}

sprobes! { (a, b, i, j)
    s_trim => a.trim().to_string();
    s_trim_start => a.trim_start().to_string();
    s_trim_end => a.trim_end().to_string();
    s_trim_matches_char => a.trim_matches(' ').to_string();
    s_trim_start_matches_str => a.trim_start_matches(b).to_string();
    s_trim_end_matches_char => a.trim_end_matches('\n').to_string();
    s_trim_matches_closure => a.trim_matches(|c: char| c == ' ' || c == '\t').to_string();
    s_strip_prefix => a.strip_prefix(b).unwrap_or("NONE").to_string();
    s_strip_suffix => a.strip_suffix(b).unwrap_or("NONE").to_string();
    s_strip_prefix_char => a.strip_prefix('\u{feff}').unwrap_or(a).to_string();
    s_split_once => match a.split_once(' ') { Some((x, y)) => format!("{}|{}", x, y), None => "NONE".to_string() };
    s_rsplit_once => match a.rsplit_once('\n') { Some((x, y)) => { let mut s = x.to_string(); s.push('|'); s.push_str(y); s } None => "NONE".to_string() };
    s_lines_join => a.lines().collect::<Vec<_>>().join("|");
    s_split_nl_join => a.split('\n').collect::<Vec<_>>().join("|");
    s_split_str_join => if b.is_empty() { String::new() } else { a.split(b).collect::<Vec<_>>().join("|") };
    s_split_ws_join => a.split_whitespace().collect::<Vec<_>>().join("|");
    s_split_terminator => a.split_terminator('\n').collect::<Vec<_>>().join("|");
    s_split_inclusive => a.split_inclusive('\n').collect::<Vec<_>>().join("|");
    s_splitn => a.splitn(2, ' ').collect::<Vec<_>>().join("|");
    s_rsplit => a.rsplit(' ').collect::<Vec<_>>().join("|");
    s_chars_rev => a.chars().rev().collect::<String>();
    s_chars_filter => a.chars().filter(|c| !c.is_whitespace()).collect::<String>();
    s_chars_skip_take => a.chars().skip(i).take(j).collect::<String>();
    s_chars_take_while => a.chars().take_while(|c| *c == ' ' || *c == '\t').collect::<String>();
    s_chars_skip_while => a.chars().skip_while(|c| c.is_whitespace()).collect::<String>();
    s_chars_map_upper => a.chars().map(|c| c.to_ascii_uppercase()).collect::<String>();
    s_slice_from => if a.is_char_boundary(i.min(a.len())) { a[i.min(a.len())..].to_string() } else { "NB".to_string() };
    s_slice_to => if a.is_char_boundary(j.min(a.len())) { a[..j.min(a.len())].to_string() } else { "NB".to_string() };
    s_slice_unchecked_boundary => a[i.min(a.len())..].to_string();
    s_get_range => a.get(i..j).unwrap_or("NONE").to_string();
    s_get_from => a.get(i..).unwrap_or("NONE").to_string();
    s_split_at => if a.is_char_boundary(i.min(a.len())) { let (x, y) = a.split_at(i.min(a.len())); format!("{}|{}", x, y) } else { "NB".to_string() };
    s_to_lowercase => a.to_lowercase();
    s_to_ascii_lowercase => a.to_ascii_lowercase();
    s_to_ascii_uppercase => a.to_ascii_uppercase();
    s_repeat => b.repeat(i.min(4));
    s_replace => if b.is_empty() { a.to_string() } else { a.replace(b, "_") };
    s_replace_char => a.replace('\t', "    ");
    s_replacen => a.replacen(' ', "", 1);
    s_to_owned => a.to_owned();
    s_string_from => String::from(a);
    s_into => { let s: String = a.into(); s };
    s_concat => [a, b].concat();
    s_join => vec![a, b, a].join(", ");
    s_format_two => format!("{}{}", a, b);
    s_format_width => format!("{:>4}|{:<3}|{:04}", i, j, i);
    s_format_debug_str => format!("{:?}", b);
    s_push_push_str => { let mut s = String::new(); s.push_str(a); s.push(' '); s.push_str(b); s };
    s_insert => { let mut s = a.to_string(); s.insert(0, '>'); s };
    s_insert_str => { let mut s = a.to_string(); if s.is_char_boundary(i.min(s.len())) { s.insert_str(i.min(s.len()), b); } s };
    s_truncate => { let mut s = a.to_string(); if s.is_char_boundary(i.min(s.len())) { s.truncate(i.min(s.len())); } s };
    s_pop => { let mut s = a.to_string(); s.pop(); s };
    s_remove => { let mut s = a.to_string(); if !s.is_empty() { s.remove(0); } s };
    s_retain => { let mut s = a.to_string(); s.retain(|c| c != ' '); s };
    s_drain => { let mut s = a.to_string(); let k = i.min(s.len()); if s.is_char_boundary(k) { s.drain(..k).collect::<String>() } else { "NB".to_string() } };
    s_replace_range => { let mut s = a.to_string(); let (x, y) = (i.min(s.len()), j.min(s.len())); if x <= y && s.is_char_boundary(x) && s.is_char_boundary(y) { s.replace_range(x..y, b); } s };
    s_replace_range_panics => { let mut s = a.to_string(); let (x, y) = (i.min(s.len()), j.min(s.len())); if x <= y { s.replace_range(x..y, ""); } s };
    s_split_off => { let mut s = a.to_string(); let k = i.min(s.len()); if s.is_char_boundary(k) { s.split_off(k) } else { "NB".to_string() } };
    s_clear => { let mut s = a.to_string(); s.clear(); s.push_str(b); s };
    s_extend_chars => { let mut s = String::new(); s.extend(a.chars().filter(|c| c.is_ascii())); s };
    s_from_utf8_lossy => String::from_utf8_lossy(&a.as_bytes()[..i.min(a.len())]).to_string();
    s_from_utf8 => String::from_utf8(a.as_bytes()[i.min(a.len())..].to_vec()).unwrap_or("ERR".to_string());
    s_str_from_utf8 => std::str::from_utf8(&a.as_bytes()[..j.min(a.len())]).unwrap_or("ERR").to_string();
    s_char_to_string => first_char(a).to_string();
    s_cow => { let c: std::borrow::Cow<str> = if i % 2 == 0 { std::borrow::Cow::Borrowed(a) } else { std::borrow::Cow::Owned(b.to_string()) }; c.into_owned() };
    s_max_by_len => [a, b].iter().max_by_key(|s| s.len()).unwrap().to_string();
    s_min_str => std::cmp::min(a, b).to_string();
    s_sorted_words => { let mut w: Vec<&str> = a.split(' ').collect(); w.sort(); w.join("|") };
    s_sorted_dedup => { let mut w: Vec<&str> = a.split(' ').collect(); w.sort_unstable(); w.dedup(); w.join("|") };
    s_rev_words => { let mut w: Vec<&str> = a.split(' ').collect(); w.reverse(); w.join("|") };
    s_last_word => a.split(' ').last().unwrap_or("").to_string();
    s_nth_word => a.split(' ').nth(i).unwrap_or("NONE").to_string();
    s_fold_concat => a.split(' ').fold(String::new(), |mut acc, w| { acc.push_str(w); acc });
    s_option_map => a.find(b).map(|p| a[p..].to_string()).unwrap_or_default();
    s_char_indices_last => a.char_indices().last().map(|(p, c)| format!("{}{}", p, c)).unwrap_or_default();
    s_bytes_to_string => a.bytes().filter(|x| x.is_ascii_alphanumeric()).map(|x| x as char).collect::<String>();
    s_hashmap_entry => { let mut m: HashMap<&str, usize> = HashMap::new(); for w in a.split(' ') { *m.entry(w).or_insert(0) += 1; } let mut k: Vec<_> = a.split(' ').map(|w| format!("{}={}", w, m[w])).collect(); k.dedup(); k.join(",") };
}

vprobes! { (a, b, i, j)
    v_find => o(a.find(b));
    v_rfind => o(a.rfind(b));
    v_find_char => o(a.find('\n'));
    v_rfind_char => o(a.rfind(' '));
    v_find_closure => o(a.find(|c: char| !c.is_whitespace()));
    v_rfind_closure => o(a.rfind(|c: char| c != ' ' && c != '\t'));
    v_find_chars => o(a.find(&[' ', '\t', '\n'][..]));
    v_contains => bo(a.contains(b));
    v_contains_char => bo(a.contains('\n'));
    v_starts_with => bo(a.starts_with(b));
    v_ends_with => bo(a.ends_with(b));
    v_starts_with_char => bo(a.starts_with('\u{3000}'));
    v_ends_with_closure => bo(a.ends_with(char::is_whitespace));
    v_len => vec![a.len(), a.chars().count(), a.bytes().len(), a.lines().count()];
    v_is_empty => bo(a.is_empty());
    v_is_char_boundary => vec![a.is_char_boundary(i) as usize, a.is_char_boundary(j) as usize];
    v_char_indices => a.char_indices().map(|(p, _)| p).collect();
    v_char_lens => a.chars().map(|c| c.len_utf8()).collect();
    v_chars_as_u32 => a.chars().map(|c| c as usize).collect();
    v_chars_as_u8 => a.chars().map(|c| (c as u8) as usize).collect();
    v_bytes => a.bytes().map(|x| x as usize).collect();
    v_as_bytes_get => o(a.as_bytes().get(i).map(|x| *x as usize));
    v_bytes_position => o(a.bytes().position(|x| x == b'\n'));
    v_bytes_rposition => o(a.as_bytes().iter().rposition(|x| *x == b' '));
    v_match_indices => if b.is_empty() { vec![] } else { a.match_indices(b).map(|(p, _)| p).collect() };
    v_matches_count => if b.is_empty() { vec![] } else { vec![a.matches(b).count()] };
    v_char_classes => a.chars().map(|c| (c.is_whitespace() as usize) | ((c.is_alphanumeric() as usize) << 1) | ((c.is_ascii() as usize) << 2) | ((c.is_alphabetic() as usize) << 3)
                          | ((c.is_ascii_digit() as usize) << 4) | ((c.is_control() as usize) << 5) | ((c.is_ascii_punctuation() as usize) << 6) | ((c.is_ascii_whitespace() as usize) << 7)
                          | ((c.is_numeric() as usize) << 8) | ((c.is_uppercase() as usize) << 9) | ((c.is_lowercase() as usize) << 10)).collect();
    v_u8_classes => a.bytes().map(|c| (c.is_ascii_whitespace() as usize) | ((c.is_ascii_alphanumeric() as usize) << 1) | ((c.is_ascii() as usize) << 2) | ((c.is_ascii_alphabetic() as usize) << 3)
                          | ((c.is_ascii_digit() as usize) << 4) | ((c.is_ascii_punctuation() as usize) << 6) | ((c.is_ascii_uppercase() as usize) << 9)).collect();
    v_to_digit => a.chars().map(|c| c.to_digit(10).map(|d| d as usize).unwrap_or(99)).collect();
    v_parse_usize => o(a.trim().parse::<usize>().ok());
    v_parse_i64 => o(a.trim().parse::<i64>().ok().map(|v| v.unsigned_abs() as usize));
    v_eq_ignore_case => bo(a.eq_ignore_ascii_case(b));
    v_cmp => vec![(a < b) as usize, (a == b) as usize, a.cmp(b) as i8 as isize as usize & 3, (a.len().cmp(&b.len()) as i8 + 1) as usize];
    v_sat_sub => vec![i.saturating_sub(j), j.saturating_sub(i), i.checked_sub(j).unwrap_or(77), i.wrapping_sub(j) & 0xff, i.abs_diff(j), i.min(j), i.max(j), i.pow(2), i.clamp(1, 3)];
    v_checked => vec![i.checked_add(j).unwrap_or(0), i.saturating_add(j), i.checked_mul(j).unwrap_or(0), i.checked_div(j).unwrap_or(99), i.checked_rem(j).unwrap_or(99), i.wrapping_add(j), i.rem_euclid(j.max(1)), i.div_ceil(j.max(1))];
    v_overflowing => { let (x, f) = (i as u8).overflowing_sub(j as u8); vec![x as usize, f as usize, (i as u8).wrapping_sub(j as u8) as usize, (i as i64 - j as i64).unsigned_abs() as usize, (i as i64 - j as i64).signum().unsigned_abs() as usize] };
    v_range_ops => { let r = i..j; vec![r.contains(&2) as usize, r.is_empty() as usize, r.len(), r.start, r.end, (i..=j).contains(&j) as usize] };
    v_windows => a.as_bytes().windows(2).map(|w| (w[0] == w[1]) as usize).collect();
    v_chunks => a.as_bytes().chunks(3).map(|c| c.len()).collect();
    v_slice_ops => { let s = a.as_bytes(); vec![s.first().map(|x| *x as usize).unwrap_or(999), s.last().map(|x| *x as usize).unwrap_or(999), s.contains(&b' ') as usize, s.starts_with(b.as_bytes()) as usize, s.ends_with(b.as_bytes()) as usize, s.iter().filter(|x| **x == b' ').count()] };
    v_iter_adaptors => { let v: Vec<usize> = a.bytes().map(|x| x as usize).collect(); vec![v.iter().sum::<usize>(), v.iter().copied().max().unwrap_or(0), v.iter().copied().min().unwrap_or(0), v.iter().any(|x| *x > 127) as usize, v.iter().all(|x| *x < 128) as usize, v.iter().position(|x| *x == 32).unwrap_or(99), v.iter().rev().position(|x| *x == 32).unwrap_or(99), v.iter().skip(i).step_by(2).count(), v.iter().take(j).count()] };
    v_enumerate_filter_map => a.chars().enumerate().filter_map(|(k, c)| if c == ' ' { Some(k) } else { None }).collect();
    v_zip => a.bytes().zip(b.bytes()).map(|(x, y)| (x == y) as usize).collect();
    v_chain => a.bytes().chain(b.bytes()).map(|x| x as usize).collect();
    v_flat_map => a.split(' ').flat_map(|w| w.bytes().take(1)).map(|x| x as usize).collect();
    v_peekable => { let mut it = a.chars().peekable(); let mut n = 0; let mut out = vec![]; while let Some(c) = it.next() { if c == ' ' && it.peek() == Some(&' ') { out.push(n); } n += 1; } out };
    v_last_nth => vec![a.bytes().last().unwrap_or(0) as usize, a.bytes().nth(i).unwrap_or(0) as usize, a.bytes().rev().nth(j).unwrap_or(0) as usize];
    v_fold => vec![a.bytes().fold(0usize, |acc, x| acc.wrapping_mul(31).wrapping_add(x as usize) & 0xffff)];
    v_scan => a.bytes().scan(0usize, |st, x| { *st += (x == b'\n') as usize; Some(*st) }).collect();
    v_take_while_count => vec![a.bytes().take_while(|x| *x == b' ' || *x == b'\t').count(), a.bytes().rev().take_while(|x| x.is_ascii_whitespace()).count(), a.chars().skip_while(|c| *c == ' ').count()];
    v_vec_ops => { let mut v: Vec<usize> = a.bytes().map(|x| x as usize).collect(); v.retain(|x| *x != 32); v.dedup(); v.truncate(6); if !v.is_empty() { v.insert(0, 7); v.remove(v.len() - 1); } v.push(i); v.extend_from_slice(&[j]); v };
    v_vec_sort => { let mut v: Vec<usize> = a.bytes().map(|x| x as usize).collect(); v.sort(); v.dedup(); v };
    v_vec_sort_by_key_rev => { let mut v: Vec<usize> = a.bytes().map(|x| x as usize).collect(); v.sort_by_key(|x| std::cmp::Reverse(*x)); v };
    v_vec_sort_by => { let mut v: Vec<(usize, usize)> = a.bytes().enumerate().map(|(k, x)| (x as usize, k)).collect(); v.sort_by(|p, q| p.0.cmp(&q.0).then(q.1.cmp(&p.1))); v.iter().map(|p| p.1).collect() };
    v_vec_drain => { let mut v: Vec<usize> = a.bytes().map(|x| x as usize).collect(); let k = i.min(v.len()); let d: Vec<usize> = v.drain(..k).collect(); let mut r = d; r.push(999); r.extend(v); r };
    v_vec_split_off => { let mut v: Vec<usize> = a.bytes().map(|x| x as usize).collect(); let k = i.min(v.len()); let t = v.split_off(k); vec![v.len(), t.len()] };
    v_vec_misc => { let mut v: Vec<usize> = a.bytes().map(|x| x as usize).collect(); let l = v.len(); v.reverse(); v.swap(0.min(l.saturating_sub(1)), l.saturating_sub(1)); let p = v.pop(); let f = v.first().copied(); let la = v.last_mut().map(|x| { *x += 1; *x }); vec![p.unwrap_or(0), f.unwrap_or(0), la.unwrap_or(0), v.len(), v.is_empty() as usize, v.contains(&32) as usize, v.iter().rev().skip(1).next().copied().unwrap_or(0)] };
    v_binary_search => { let v: Vec<usize> = vec![1, 3, 5, 8, 13]; vec![v.binary_search(&i).unwrap_or_else(|e| e + 100), v.partition_point(|x| *x < j)] };
    v_concat_vecs => { let v = vec![vec![i], vec![], vec![j, i]]; v.concat() };
    v_option_ops => { let x = a.find(b); let y = a.rfind(b); vec![x.is_some() as usize, x.is_none() as usize, x.unwrap_or(99), x.map_or(98, |v| v + 1), x.and_then(|v| v.checked_sub(1)).unwrap_or(97), x.or(Some(5)).unwrap(), x.zip(y).map(|(p, q)| q - p).unwrap_or(96), x.filter(|v| *v > 0).unwrap_or(95), x.xor(None).unwrap_or(94), x.is_some_and(|v| v == 0) as usize, x.ok_or(()).is_ok() as usize, x.unwrap_or_default(), x.into_iter().count(), x.iter().count()] };
    v_result_ops => { let r = a.trim().parse::<usize>(); vec![r.is_ok() as usize, r.is_err() as usize, r.clone().unwrap_or(7), r.clone().map(|v| v + 1).unwrap_or(8), r.clone().ok().unwrap_or(9), r.clone().unwrap_or_default(), r.clone().map_err(|_| 3usize).err().unwrap_or(0), r.and_then(|v| v.checked_add(1).ok_or("x".parse::<usize>().unwrap_err())).unwrap_or(11)] };
    v_hashset => { let s: HashSet<&str> = a.split(' ').collect(); vec![s.len(), s.contains(b) as usize, s.is_empty() as usize] };
    v_hashmap => { let mut m: HashMap<usize, usize> = HashMap::new(); for (k, x) in a.bytes().enumerate() { m.insert(x as usize, k); } vec![m.len(), m.get(&32).copied().unwrap_or(99), m.contains_key(&10) as usize, m.remove(&32).unwrap_or(98), m.len()] };
    v_mem_ops => { let mut x = i; let mut y = j; std::mem::swap(&mut x, &mut y); let z = std::mem::replace(&mut x, 5); let w = std::mem::take(&mut y); vec![x, y, z, w] };
    v_tuple_cmp => vec![((i, j) < (j, i)) as usize, ((i, a) == (j, b)) as usize, std::cmp::max((i, j), (j, i)).0];
    v_char_boundary_walk => { let mut p = i.min(a.len()); while !a.is_char_boundary(p) { p += 1; } let mut q = j.min(a.len()); while !a.is_char_boundary(q) { q -= 1; } vec![p, q] };
    v_line_starts => std::iter::once(0).chain(a.match_indices('\n').map(|(p, _)| p + 1)).collect();
    v_successors => std::iter::successors(Some(i), |x| if *x < 20 { Some(x * 2 + 1) } else { None }).collect();
    v_from_fn => { let mut c = 0; std::iter::from_fn(|| { c += 1; if c <= j.min(5) { Some(c * i) } else { None } }).collect() };
    v_repeat_take => std::iter::repeat(i).take(j.min(4)).collect();
    v_rev_enumerate => a.bytes().rev().enumerate().filter(|(_, x)| *x == b' ').map(|(k, _)| k).collect();
    v_max_by => { let w: Vec<&str> = a.split(' ').collect(); vec![w.iter().map(|s| s.len()).max().unwrap_or(0), w.iter().max_by_key(|s| s.len()).map(|s| s.len()).unwrap_or(0), w.iter().min_by_key(|s| s.len()).map(|s| s.len()).unwrap_or(0), w.iter().map(|s| s.len()).sum()] };
    v_shifts => vec![i << 2, i >> 1, i & j, i | j, i ^ j, !i & 0xff, (i as u8 as char) as usize, (i as u32).leading_zeros() as usize, i.count_ones() as usize, i.trailing_zeros().min(64) as usize, (i as i32 - j as i32).rem_euclid(7) as usize, ((i as i32 - j as i32) / 2 + 10) as usize, ((i as i32 - j as i32) % 3 + 10) as usize];
}

// ---------------------------------------------------------------------------------------------------------------------------
// second batch: language features (patterns, control flow, closures, traits, user types) and more library surface
pub mod more {
    use std::collections::{BTreeMap, BTreeSet, HashMap, VecDeque};
    use std::fmt::Write as _;
    use std::ops::Range;
    use std::rc::Rc;

    fn o(x: Option<usize>) -> Vec<usize> {
        match x {
            Some(v) => vec![1, v],
            None => vec![0],
        }
    }

    #[derive(Debug, Clone, Copy, PartialEq, Eq, PartialOrd, Ord)]
    pub enum Kind {
        Blank,
        Word,
        Other(u8),
    }

    #[derive(Debug, Clone, PartialEq)]
    pub struct Span {
        pub range: Range<usize>,
        pub kind: Kind,
    }

    pub trait Classify {
        fn classify(&self, c: char) -> Kind;
    }
    pub struct Ascii;
    pub struct Wide {
        extra: char,
    }
    impl Classify for Ascii {
        fn classify(&self, c: char) -> Kind {
            if c == ' ' || c == '\t' {
                Kind::Blank
            } else if c.is_ascii_alphanumeric() {
                Kind::Word
            } else {
                Kind::Other((c as u32 & 0xff) as u8)
            }
        }
    }
    impl Classify for Wide {
        fn classify(&self, c: char) -> Kind {
            if c.is_whitespace() || c == self.extra {
                Kind::Blank
            } else {
                Kind::Word
            }
        }
    }

    pub struct Runs<'a> {
        s: &'a str,
        pos: usize,
    }
    impl<'a> Iterator for Runs<'a> {
        type Item = (usize, usize);
        fn next(&mut self) -> Option<(usize, usize)> {
            let rest = &self.s[self.pos..];
            let first = rest.chars().next()?;
            let blank = first == ' ';
            let len: usize = rest.chars().take_while(|c| (*c == ' ') == blank).map(|c| c.len_utf8()).sum();
            let start = self.pos;
            self.pos += len;
            Some((start, self.pos))
        }
    }

    fn spans(a: &str, cl: &dyn Classify) -> Vec<Span> {
        let mut out: Vec<Span> = vec![];
        for (p, c) in a.char_indices() {
            let k = cl.classify(c);
            match out.last_mut() {
                Some(last) if last.kind == k => last.range.end = p + c.len_utf8(),
                _ => out.push(Span { range: p..p + c.len_utf8(), kind: k }),
            }
        }
        out
    }

    fn first_two(v: &[usize]) -> usize {
        match v {
            [] => 0,
            [x] => *x,
            [x, y] => x * 10 + y,
            [x, .., z] => x * 100 + z,
        }
    }

    fn tail_sum(v: &[usize]) -> usize {
        match v {
            [_, rest @ ..] => rest.iter().sum(),
            [] => 0,
        }
    }

    fn parse_kv(s: &str) -> Option<(&str, usize)> {
        let (k, v) = s.split_once('=')?;
        let n = v.trim().parse::<usize>().ok()?;
        Some((k.trim(), n))
    }

    fn let_else(s: &str) -> usize {
        let Some(p) = s.find(' ') else {
            return 999;
        };
        p
    }

    const TABLE: [usize; 5] = [2, 3, 5, 7, 11];
    static NAMES: &[&str] = &["zero", "one", "two"];

    macro_rules! sp {
        (($a:ident, $b:ident, $i:ident, $j:ident) $($name:ident => $body:expr;)*) => {
            $(pub fn $name($a: &str, $b: &str, $i: usize, $j: usize) -> String { $body })*
            pub fn call_s(n: &str, a: &str, b: &str, i: usize, j: usize) -> Option<String> {
                match n { $(stringify!($name) => Some($name(a, b, i, j)),)* _ => None }
            }
            pub const S_NAMES: &[&str] = &[$(stringify!($name)),*];
        };
    }
    macro_rules! vp {
        (($a:ident, $b:ident, $i:ident, $j:ident) $($name:ident => $body:expr;)*) => {
            $(pub fn $name($a: &str, $b: &str, $i: usize, $j: usize) -> Vec<usize> { $body })*
            pub fn call_v(n: &str, a: &str, b: &str, i: usize, j: usize) -> Option<Vec<usize>> {
                match n { $(stringify!($name) => Some($name(a, b, i, j)),)* _ => None }
            }
            pub const V_NAMES: &[&str] = &[$(stringify!($name)),*];
        };
    }

    sp! { (a, b, i, j)
        ms_write_macro => { let mut s = String::new(); write!(s, "{}-{}", a, i).unwrap(); writeln!(s, "|{:>3}", j).unwrap(); s };
        ms_inline_args => format!("{a}:{i:>3}:{b}");
        ms_string_add => { let s = a.to_string() + b; s + "!" };
        ms_add_assign => { let mut s = String::from(a); s += b; s += "."; s };
        ms_match_str => match b { "a" => "letter".to_string(), " " | "\n" => "blank".to_string(), "" => "empty".to_string(), other => other.to_uppercase() };
        ms_match_char_ranges => a.chars().map(|c| match c { 'a'..='z' => 'l', 'A'..='Z' => 'U', '0'..='9' => 'd', ' ' | '\t' | '\n' => '_', _ if !c.is_ascii() => 'w', _ => '?' }).collect();
        ms_char_from => [i, j, 65, 0x3042].iter().filter_map(|x| char::from_u32(*x as u32)).collect();
        ms_char_from_u8 => a.bytes().filter(|x| x.is_ascii_graphic()).map(char::from).collect();
        ms_to_lower_char => a.chars().flat_map(|c| c.to_lowercase()).filter(|c| c.is_ascii()).collect();
        ms_rc_string => { let r = Rc::new(a.to_string()); let r2 = Rc::clone(&r); format!("{}{}", r.as_str().len(), &r2[..0]) };
        ms_runs_iter => Runs { s: a, pos: 0 }.map(|(x, y)| format!("{}-{}", x, y)).collect::<Vec<_>>().join(",");
        ms_dyn_spans => { let cl: Box<dyn Classify> = if i % 2 == 0 { Box::new(Ascii) } else { Box::new(Wide { extra: '\u{3000}' }) }; spans(a, cl.as_ref()).iter().map(|s| format!("{}..{}{}", s.range.start, s.range.end, match s.kind { Kind::Blank => 'b', Kind::Word => 'w', Kind::Other(_) => 'o' })).collect::<Vec<_>>().join(" ") };
        ms_names => NAMES.get(i).copied().unwrap_or("many").to_string();
        ms_btreemap => { let mut m = BTreeMap::new(); for w in a.split(' ') { *m.entry(w).or_insert(0usize) += 1; } m.iter().map(|(k, v)| format!("{}={}", k, v)).collect::<Vec<_>>().join(",") };
        ms_btreeset => { let s: BTreeSet<char> = a.chars().collect(); s.into_iter().collect() };
        ms_labeled_break => { let mut out = String::new(); 'outer: for l in a.lines() { for c in l.chars() { if c == '=' { break 'outer; } if c == ' ' { continue 'outer; } out.push(c); } out.push('/'); } out };
        ms_loop_value => { let mut it = a.chars(); let found = loop { match it.next() { Some(c) if c.is_whitespace() => continue, Some(c) => break Some(c), None => break None } }; found.map(String::from).unwrap_or_default() };
        ms_closure_fnmut => { let mut count = 0; let mut bump = |c: char| { if c == ' ' { count += 1; } count }; let v: Vec<usize> = a.chars().map(|c| bump(c)).collect(); format!("{:?}", v.last().copied().unwrap_or(0)) };
        ms_closure_returning_closure => { let adder = |n: usize| move |x: usize| x + n; let f = adder(i); f(j).to_string() };
        ms_trim_ascii => a.trim_ascii().to_string();
        ms_split_ascii_ws => a.split_ascii_whitespace().rev().collect::<Vec<_>>().join("|");
        ms_char_indices_rev => a.char_indices().rev().take(2).map(|(p, c)| format!("{}{}", p, c)).collect();
        ms_escape => b.escape_default().to_string();
        ms_lines_enumerate => a.lines().enumerate().map(|(n, l)| format!("{:>2}|{}", n + 1, l)).collect::<Vec<_>>().join("\n");
        ms_tab_expand => a.chars().map(|c| if c == '\t' { "    ".to_string() } else { c.to_string() }).collect::<String>();
        ms_pad => format!("[{:<5}][{:>5}][{:^5}][{:*<4}]", b, b, b, i);
    }

    vp! { (a, b, i, j)
        mv_slice_patterns => { let v: Vec<usize> = a.bytes().map(|x| x as usize % 10).collect(); vec![first_two(&v), tail_sum(&v), first_two(&v[..v.len().min(2)]), first_two(&[])] };
        mv_question_mark => { let r = parse_kv(a); vec![r.is_some() as usize, r.map(|x| x.1).unwrap_or(0), r.map(|x| x.0.len()).unwrap_or(0)] };
        mv_let_else => vec![let_else(a), let_else(b)];
        mv_if_let_chain => { let mut n = 0; if let Some(p) = a.find(' ') { if let Some(q) = a[p + 1..].find(' ') { n = p + q; } else { n = 1000 + p; } } vec![n] };
        mv_while_let_pop => { let mut st: Vec<usize> = a.bytes().map(|x| x as usize).collect(); let mut out = vec![]; while let Some(x) = st.pop() { if x == 32 { break; } out.push(x); } out };
        mv_table => vec![TABLE[i % 5], TABLE.iter().sum::<usize>(), TABLE.len(), TABLE.iter().position(|x| *x == j).unwrap_or(99)];
        mv_array_init => { let mut t = [0usize; 4]; for (k, x) in a.bytes().enumerate() { t[k % 4] += x as usize; } t.to_vec() };
        mv_2d_vec => { let mut g = vec![vec![0usize; 3]; 2]; g[i % 2][j % 3] = 7; g[1][0] += 1; g.concat() };
        mv_enum_ord => { let cl = Ascii; let mut k: Vec<Kind> = a.chars().map(|c| cl.classify(c)).collect(); k.sort(); k.dedup(); k.iter().map(|x| match x { Kind::Blank => 0, Kind::Word => 1, Kind::Other(v) => 100 + *v as usize }).collect() };
        mv_struct_eq => { let s1 = spans(a, &Ascii); let s2 = spans(b, &Ascii); vec![(s1 == s2) as usize, s1.len(), s1.first().map(|s| s.range.len()).unwrap_or(0), (s1.first() == s2.first()) as usize] };
        mv_range_ops => { let r = i..j; let q = 2..6usize; vec![r.len(), r.clone().rev().next().unwrap_or(99), r.clone().step_by(2).count(), (r.start < q.end && q.start < r.end) as usize, r.start.max(q.start), r.end.min(q.end), r.clone().filter(|x| x % 2 == 1).sum::<usize>(), (i..=j).count(), q.contains(&i) as usize] };
        mv_range_vec => { let mut v: Vec<Range<usize>> = vec![i..j, 0..2, 4..9, 2..3]; v.retain(|r| !r.is_empty()); v.sort_by_key(|r| (r.start, r.end)); let mut m: Vec<Range<usize>> = vec![]; for r in v { match m.last_mut() { Some(l) if l.end >= r.start => l.end = l.end.max(r.end), _ => m.push(r) } } m.iter().flat_map(|r| [r.start, r.end]).collect() };
        mv_vecdeque => { let mut q: VecDeque<usize> = VecDeque::new(); q.push_back(i); q.push_back(j); q.push_front(9); let f = q.pop_front(); let l = q.len(); vec![f.unwrap_or(0), l, q.front().copied().unwrap_or(0), q.back().copied().unwrap_or(0), q.iter().sum()] };
        mv_hashmap_get_or => { let mut m: HashMap<&str, Vec<usize>> = HashMap::new(); for (k, w) in a.split(' ').enumerate() { m.entry(w).or_default().push(k); } let mut r = m.get(b).cloned().unwrap_or_default(); r.push(m.len()); r };
        mv_partition_unzip => { let (ev, od): (Vec<usize>, Vec<usize>) = a.bytes().map(|x| x as usize).partition(|x| x % 2 == 0); let (p, q): (Vec<usize>, Vec<usize>) = a.bytes().enumerate().map(|(k, x)| (k, x as usize)).unzip(); vec![ev.len(), od.len(), p.len(), q.iter().sum()] };
        mv_flatten => { let v = vec![Some(i), None, Some(j)]; let w: Vec<usize> = v.iter().flatten().copied().collect(); let n: Vec<Vec<usize>> = vec![vec![1], vec![], vec![i, j]]; let f: Vec<usize> = n.into_iter().flatten().collect(); [w, f].concat() };
        mv_min_max_by => { let v: Vec<(usize, usize)> = a.bytes().enumerate().map(|(k, x)| (x as usize, k)).collect(); vec![v.iter().max_by(|p, q| p.0.cmp(&q.0)).map(|p| p.1).unwrap_or(99), v.iter().min_by(|p, q| p.0.cmp(&q.0).then(q.1.cmp(&p.1))).map(|p| p.1).unwrap_or(99), v.iter().map(|p| p.0).max().unwrap_or(0)] };
        mv_is_sorted => { let v: Vec<usize> = a.bytes().map(|x| x as usize).collect(); vec![v.windows(2).all(|w| w[0] <= w[1]) as usize, v.iter().rev().skip_while(|x| **x == 32).count(), v.iter().copied().product::<usize>() & 0xffff] };
        mv_cycle_last => vec![a.bytes().cycle().take(i + j).last().unwrap_or(0) as usize, a.bytes().rev().nth(i).unwrap_or(0) as usize, a.chars().nth_back(j).map(|c| c as usize).unwrap_or(0)];
        mv_splice_drain => { let mut v: Vec<usize> = (0..8).collect(); let d: Vec<usize> = v.drain(i.min(8)..(i + 2).min(8)).collect(); v.splice(0..1, [7, 7]); v.extend(d); v.dedup_by_key(|x| *x / 2); v };
        mv_retain_mut_swap_remove => { let mut v: Vec<usize> = a.bytes().map(|x| x as usize).collect(); if !v.is_empty() { v.swap_remove(0); } v.retain_mut(|x| { *x += 1; *x % 3 != 0 }); v.resize(4, 1); v.rotate_left(1); v };
        mv_chunks_exact_rchunks => { let v: Vec<usize> = a.bytes().map(|x| x as usize).collect(); let mut out: Vec<usize> = v.chunks_exact(2).map(|c| c[0] + c[1]).collect(); out.extend(v.rchunks(3).map(|c| c.len())); out.extend(v.split(|x| *x == 32).map(|s| s.len())); out };
        mv_int_casts => vec![(i as u8).wrapping_add(250) as usize, (i as i8 - 5) as u8 as usize, (-(j as i32)) as u32 as usize & 0xffff, (i as u16).rotate_left(3) as usize, u8::try_from(i * 40).map(|x| x as usize).unwrap_or(999), usize::try_from(i as i64 - 3).unwrap_or(888), (i as f64 / 2.0) as usize, u32::from(i as u8) as usize, (b.len() as isize - 3).unsigned_abs(), i.next_power_of_two(), i.isqrt(), (j as u32).checked_ilog2().unwrap_or(77) as usize];
        mv_char_props => a.chars().map(|c| (c.is_ascii_graphic() as usize) | ((c.is_ascii_hexdigit() as usize) << 1) | ((c.eq_ignore_ascii_case(&'A') as usize) << 2) | ((c.is_ascii_lowercase() as usize) << 3) | ((c.len_utf16()) << 4)).collect();
        mv_bytes_rposition_windows => vec![a.as_bytes().iter().rposition(|x| *x == b'\n').unwrap_or(99), a.as_bytes().windows(2).position(|w| w == b"\r\n").unwrap_or(99), a.as_bytes().iter().filter(|x| !x.is_ascii()).count(), a.bytes().rev().position(|x| x != b' ').unwrap_or(99), a.as_bytes().split(|x| *x == b'\n').count()];
        mv_str_cmp_ops => vec![a.cmp(b) as i8 as isize as usize & 3, a.partial_cmp(b).map(|o| o as i8 + 1).unwrap_or(9) as usize, (a.to_string() > b.to_string()) as usize, a.chars().cmp(b.chars()) as i8 as isize as usize & 3, a.chars().eq(b.chars()) as usize, a.bytes().lt(b.bytes()) as usize];
        mv_option_more => { let x = a.find(b); let mut y = x; let t = y.take(); let z = y.get_or_insert(5); *z += 1; let mut w = Some(i); if let Some(v) = w.as_mut() { *v += 1; } vec![t.unwrap_or(99), y.unwrap_or(98), w.unwrap_or(97), x.map(|v| v * 2).into_iter().chain(Some(j)).sum::<usize>(), x.and(Some(3)).unwrap_or(96), x.is_none_or(|v| v > 2) as usize, w.replace(4).unwrap_or(95), w.unwrap_or(94)] };
        mv_nested_closure_capture => { let words: Vec<&str> = a.split(' ').collect(); let longest = words.iter().map(|w| w.len()).max().unwrap_or(0); let pick = |min: usize| words.iter().filter(|w| w.len() >= min).count(); vec![longest, pick(1), pick(longest), pick(longest + 1)] };
        mv_tuple_struct_update => { #[derive(Clone, Default)] struct Cfg { a: usize, b: usize, c: bool } let base = Cfg { a: i, ..Default::default() }; let d = Cfg { b: j, c: true, ..base.clone() }; vec![base.a, base.b, base.c as usize, d.a, d.b, d.c as usize] };
        mv_early_return_loop => o((|| { for (k, c) in a.chars().enumerate() { if c == ' ' { return Some(k); } if k > j { return None; } } None })());
        mv_range_by_mut_ref => { let mut r = Some(i..=j + 2); let mut out = vec![]; if let Some(x) = r.as_mut() { out.push(x.next().unwrap_or(99)); } if let Some(x) = r.as_mut() { out.push(x.next().unwrap_or(98)); } let mut q = 0..j; let a1 = q.next().unwrap_or(97); let a2 = q.by_ref().take(2).count(); let a3 = q.next().unwrap_or(96); let mut w = i..j + 3; let b1 = (&mut w).next_back().unwrap_or(95); let b2 = w.next_back().unwrap_or(94); out.extend([a1, a2, a3, b1, b2, w.len()]); out };
        mv_iter_by_mut_ref => { let v: Vec<usize> = a.bytes().map(|x| x as usize).collect(); let mut it = v.iter(); let first: Vec<usize> = it.by_ref().take_while(|x| **x != 32).copied().collect(); let rest: Vec<usize> = it.copied().collect(); let mut ch = a.chars(); let c1 = (&mut ch).next().map(|c| c as usize).unwrap_or(0); let c2 = ch.next().map(|c| c as usize).unwrap_or(0); vec![first.len(), rest.len(), c1, c2, ch.as_str().len()] };
        mv_rc_refcell => { use std::cell::RefCell; let c = Rc::new(RefCell::new(vec![i])); let c2 = Rc::clone(&c); c2.borrow_mut().push(j); let n = c.borrow().len(); let cell = std::cell::Cell::new(i); cell.set(cell.get() + 1); let second = c.borrow()[1]; let sc = Rc::strong_count(&c); vec![n, second, cell.get(), sc] };
    }
}
