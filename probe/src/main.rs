use std::io::{BufRead, Write};
use std::panic;

fn main() {
    panic::set_hook(Box::new(|_| {}));
    let args: Vec<String> = std::env::args().collect();
    if args.len() > 1 && args[1] == "names" {
        for n in probe::S_NAMES.iter().chain(probe::V_NAMES.iter()).chain(probe::more::S_NAMES.iter()).chain(probe::more::V_NAMES.iter()) {
            println!("{}", n);
        }
        return;
    }
    let stdin = std::io::stdin();
    let out = std::io::stdout();
    let mut out = out.lock();
    for line in stdin.lock().lines() {
        let line = line.unwrap();
        let req: serde_json::Value = serde_json::from_str(&line).unwrap();
        let n = req["fn"].as_str().unwrap().to_string();
        let a = req["a"].as_str().unwrap().to_string();
        let b = req["b"].as_str().unwrap().to_string();
        let i = req["i"].as_u64().unwrap() as usize;
        let j = req["j"].as_u64().unwrap() as usize;
        let r = panic::catch_unwind(|| {
            if let Some(s) = probe::call_s(&n, &a, &b, i, j) {
                serde_json::json!({ "s": s })
            } else if let Some(v) = probe::call_v(&n, &a, &b, i, j) {
                serde_json::json!({ "v": v })
            } else if let Some(s) = probe::more::call_s(&n, &a, &b, i, j) {
                serde_json::json!({ "s": s })
            } else if let Some(v) = probe::more::call_v(&n, &a, &b, i, j) {
                serde_json::json!({ "v": v })
            } else {
                serde_json::json!({ "error": "unknown" })
            }
        });
        let v = match r {
            Ok(v) => v,
            Err(_) => serde_json::json!({ "panic": true }),
        };
        writeln!(out, "{}", v).unwrap();
    }
}
