#!/bin/bash
# tools/benign.sh <benign id> <checks...> : apply a behaviour-preserving refactoring to /repo, run the quick checks (expected: exit 0), undo
id=$1; shift
cd /repo && git status --porcelain | grep -q . && { echo "repo not clean"; exit 9; }
git apply /verif/benign/$id/patch.diff || { echo "$id: patch does not apply"; exit 9; }
cd /verif
export VERIF_EVIDENCE_DIR=/tmp/seed-evidence   # evidence of a run against a patched tree is not evidence about /repo
for c in "$@"; do
  out=$(./check $c --tier quick 2>&1); rc=$?
  echo "  $id vs $c: exit $rc $(echo "$out" | grep -E "^C[0-9]+:" | sed 's/.*jobs complete, //')"
  if [ $rc -ne 0 ]; then echo "$out" | grep -E "VIOLATION|unencoded x|UNENC|ENCODING|ENGINE|VACUITY|Error|error" | head -6 | cut -c1-300; fi
done
git -C /repo checkout -- .
