#!/bin/bash
# tools/benignall.sh: every behaviour-preserving refactoring of /verif/benign against the checks that touch the refactored code,
# on a scratch clone of /repo (never /repo itself). Expected: every line ends with exit 0.
S=${BENIGN_SCRATCH:-/tmp/benignrepo}
[ -d $S/.git ] || git clone -q /repo $S
cd /verif
export VERIF_EVIDENCE_DIR=/tmp/seed-evidence VERIF_REPO=$S VERIF_BUILD=$S-build
declare -A CH=( [R1]="C07 C08 C01" [R2]="C09 C10 C06" [R3]="C03 C11 C17 C05 C06" [R4]="C13 C14 C12" [R5]="C16 C13 C15 C11" [R6]="C18 C15 C20 C05" )
for d in benign/R*; do
  id=$(basename $d); grp=${id%-*}
  case "$id" in *$1*) ;; *) continue;; esac
  git -C $S fetch -q /repo HEAD && git -C $S checkout -q --detach FETCH_HEAD && git -C $S checkout -q -- .
  git -C $S reset -q --hard
  if ! git -C $S apply $PWD/$d/patch.diff 2>/dev/null; then echo "  $id: patch does not apply on the current HEAD"; continue; fi
  for c in ${CH[$grp]}; do
    out=$(./check $c --tier quick 2>&1); rc=$?
    echo "  $id vs $c: exit $rc $(echo "$out" | grep -E "^C[0-9]+:" | sed 's/.*jobs complete, //')"
    [ $rc -ne 0 ] && echo "$out" | grep -E "VIOLATION|unencoded x|UNENC|ENCODING|ENGINE|VACUITY|rror" | head -5 | cut -c1-300
  done
  git -C $S checkout -q -- . ; git -C $S reset -q --hard
done
