#!/usr/bin/env python3
"""Conformance run of mirsym's std models (the trusted base, DESIGN.md §4.3): every probe function of /verif/probe is executed
natively and by the MIR interpreter on the same concrete inputs; any difference is a wrong model, any Unsupported a missing one.

  python3-vt tools/modelcheck.py [--only SUBSTR] [--out probe/RESULT.json]

Not part of a property check (nothing here reads /repo); run after touching mirsym/models.py. Exit 0 iff no mismatch.
"""
import os, sys, json, subprocess, argparse, itertools, time, collections

VERIF = os.path.dirname(os.path.dirname(os.path.abspath(__file__)))
sys.path.insert(0, os.path.join(VERIF, 'mirsym'))
sys.setrecursionlimit(20000)
import engine  # noqa: E402
from engine import *  # noqa: E402,F401
import models  # noqa: E402

BUILD = os.environ.get('VERIF_PROBE_BUILD', os.path.join(VERIF, '.build', 'probe'))
ENV = dict(os.environ, CARGO_NET_OFFLINE='true')
A_VALUES = ["", "a", " a b ", "\tx\n", "héllo wörld", "日本語 テキスト", "a\nb\n\nc", "　全角", "<!-- <t> -->", "  \n  ", "aa  bb aa", "12", " 42\n", "x=1 y=2", "A\r\nB"]
B_VALUES = ["", "a", " ", "\n", "é", "lo", "<", "aa"]
IJ = [(0, 0), (1, 2), (2, 1), (3, 5), (8, 3), (5, 8)]


def build():
    os.makedirs(BUILD, exist_ok=True)
    src = os.path.join(VERIF, 'probe')
    for d in [x for x in (os.path.join(BUILD, 'mir/debug/.fingerprint'),) if os.path.isdir(x)]:
        for f in os.listdir(d):
            if f.startswith('probe-'):
                subprocess.run(['rm', '-rf', os.path.join(d, f)])
    mir = os.path.join(BUILD, 'probe.mir')
    r = subprocess.run(['cargo', '+nightly', 'rustc', '--offline', '--lib', '--target-dir', os.path.join(BUILD, 'mir'), '--', '-Zunpretty=mir',
                        '-Ztrim-diagnostic-paths=no', '-C', 'debug-assertions=off', '-C', 'overflow-checks=on'], cwd=src, env=ENV, stdout=open(mir, 'wb'), stderr=subprocess.PIPE)
    assert r.returncode == 0 and os.path.getsize(mir) > 1000, r.stderr.decode()[-2000:]
    r = subprocess.run(['cargo', 'build', '--offline', '--target-dir', os.path.join(BUILD, 'native')], cwd=src, env=ENV, stdout=subprocess.PIPE, stderr=subprocess.PIPE)
    assert r.returncode == 0, r.stderr.decode()[-2000:]
    return mir, os.path.join(BUILD, 'native/debug/probe_run')


def to_py(v):
    if isinstance(v, StringObj):
        return bytes(v.buf).decode(errors='replace')
    if isinstance(v, VecObj):
        return [int(x) for x in v.items]
    raise TypeError(type(v).__name__)


def main():
    ap = argparse.ArgumentParser()
    ap.add_argument('--only')
    ap.add_argument('--out', default=os.path.join(VERIF, 'probe', 'RESULT.json'))
    a = ap.parse_args()
    mir, exe = build()
    names = subprocess.run([exe, 'names'], stdout=subprocess.PIPE).stdout.decode().split()
    if a.only:
        names = [n for n in names if a.only in n]
    crate = engine.load_crate(mir, os.path.join(VERIF, 'probe'), os.path.join(VERIF, 'probe', 'src'))
    I = engine.Interp(crate, models.Models())
    reqs = [dict(fn=n, a=x, b=y, i=i, j=j) for n in names for x in A_VALUES for y in B_VALUES for (i, j) in IJ]
    p = subprocess.run([exe], input='\n'.join(json.dumps(r) for r in reqs).encode(), stdout=subprocess.PIPE)
    nat = [json.loads(l) for l in p.stdout.decode().split('\n') if l]
    assert len(nat) == len(reqs), (len(nat), len(reqs))
    res = collections.OrderedDict((n, dict(calls=0, ok=0, mismatch=[], unsupported={}, error={})) for n in names)
    t0 = time.time()
    for r, nv in zip(reqs, nat):
        st = res[r['fn']]
        st['calls'] += 1
        if st['unsupported'] and st['calls'] > 40 and not st['ok']:
            continue   # a probe that never gets past a missing model: no need to repeat it 720 times
        I.start_path([])
        try:
            fname = r['fn'] if r['fn'] in crate.funcs else 'more::' + r['fn']
            out = I.call(fname, [cstr(r['a']), cstr(r['b']), r['i'], r['j']])
            mv = {'s': to_py(out)} if r['fn'].startswith(('s_', 'ms_')) else {'v': to_py(out)}
        except RustPanic:
            mv = {'panic': True}
        except Unsupported as e:
            k = str(e)[:160]
            st['unsupported'][k] = st['unsupported'].get(k, 0) + 1
            continue
        except Exception as e:  # an engine fault is reported, never hidden
            k = repr(e)[:160]
            st['error'][k] = st['error'].get(k, 0) + 1
            continue
        if mv == nv:
            st['ok'] += 1
        elif len(st['mismatch']) < 3:
            st['mismatch'].append(dict(input={k: r[k] for k in 'abij'}, native=nv, mirsym=mv))
        else:
            st['mismatch'].append(None)
    bad = {n: s for n, s in res.items() if s['mismatch']}
    unsup = collections.Counter()
    for n, s in res.items():
        for k, c in s['unsupported'].items():
            unsup[k] += 1
    summary = dict(probes=len(names), calls=len(reqs), agree=sum(s['ok'] for s in res.values()), probes_with_mismatch=sorted(bad),
                   probes_fully_modelled=sum(1 for s in res.values() if not s['unsupported'] and not s['error'] and not s['mismatch']),
                   missing_models=dict(unsup.most_common()), engine_errors={n: s['error'] for n, s in res.items() if s['error']}, wall_s=round(time.time() - t0, 1))
    for n, s in res.items():
        s['mismatch'] = [m for m in s['mismatch'] if m] + ([f"... {sum(1 for m in s['mismatch'] if m is None)} more"] if any(m is None for m in s['mismatch']) else [])
    json.dump(dict(summary=summary, probes=res), open(a.out, 'w'), indent=1, ensure_ascii=False)
    print(json.dumps(summary, indent=1, ensure_ascii=False))
    for n, s in bad.items():
        print('MISMATCH', n, json.dumps(s['mismatch'][:2], ensure_ascii=False)[:600])
    sys.exit(1 if bad else 0)


if __name__ == '__main__':
    main()
