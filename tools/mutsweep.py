#!/usr/bin/env python3
"""Automatic first-order mutation sweep (a blind-spot finder, not part of any check).

Works on a scratch clone of /repo (VERIF_REPO / VERIF_BUILD point the checks at it), so /repo itself is never touched.
For every mutant: compile + the repository's own test suite; a mutant that SURVIVES the suite is run through the quick checks
mapped to the mutated file. Survivors of both are listed for manual inspection (equivalent mutants cannot be told apart
automatically).

  tools/mutsweep.py [--files tokenizer.rs,...] [--limit N] [--out FILE]
"""
import os, re, sys, json, subprocess, shutil, time, argparse, random

SCR = '/tmp/mutrepo'
BUILD = '/tmp/mutbuild'
ENV = dict(os.environ, CARGO_NET_OFFLINE='true', CARGO_TARGET_DIR=SCR + '-target')
CHECKS = {
    'tokenizer.rs': ['C07', 'C08', 'C01'],
    'element_parser.rs': ['C09', 'C06', 'C01'],
    'parser.rs': ['C10', 'C04'],
    'code/remover.rs': ['C03', 'C02', 'C17', 'C11', 'C12', 'C01'],
    'code/remover/marker/builder/unwrap_block_marker_builder.rs': ['C11', 'C19', 'C03'],
    'code/remover/marker/builder/range_marker_builder.rs': ['C03', 'C02'],
    'code/remover/marker/availability/unwrap_block_marker_availability.rs': ['C11', 'C06'],
    'code/remover/marker/factory.rs': ['C11', 'C03'],
    'code/remover/removal_evaluator/marker_evaluator.rs': ['C06'],
    'code/remover/removal_evaluator/time_limited_evaluator.rs': ['C05'],
    'code/formatter.rs': ['C14', 'C13', 'C12', 'C01'],
    'code/formatter/block_indent_remover.rs': ['C12', 'C14', 'C01'],
    'code/formatter/empty_line_remover.rs': ['C13', 'C14'],
    'code/formatter/indent_remover.rs': ['C13', 'C14'],
    'code/formatter/next_line_break_remover.rs': ['C13', 'C14'],
    'code/formatter/prev_line_break_remover.rs': ['C13', 'C14'],
    'code/utils/line_break_pos_finder.rs': ['C13', 'C11', 'C16'],
    'code/utils/char_pos_finder.rs': ['C12', 'C14'],
    'code/utils/line_map.rs': ['C16', 'C15'],
    'code/utils/blank_counter.rs': ['C16'],
    'code/list.rs': ['C16', 'C15', 'C17', 'C01'],
    'chiritori.rs': ['C18', 'C15', 'C03'],
    '../../chiritori-cli/src/main.rs': ['C20', 'C06', 'C05'],
}
# hand-written mutants for code the regex operators do not reach (clap attributes, iterator chains): (file, old, new)
EXPLICIT = [
    ('../../chiritori-cli/src/main.rs', 'default_value = "time-limited"', 'default_value = "time_limited"'),
    ('../../chiritori-cli/src/main.rs', 'default_value = "removal-marker"', 'default_value = "removal_marker"'),
    ('../../chiritori-cli/src/main.rs', 'default_value = "<!-- <"', 'default_value = "<!--<"'),
    ('../../chiritori-cli/src/main.rs', 'default_value = "> -->"', 'default_value = ">-->"'),
    ('../../chiritori-cli/src/main.rs', 'default_value = "+00:00"', 'default_value = "+09:00"'),
    ('../../chiritori-cli/src/main.rs', '        .chain(args.removal_marker_target_name)\n', ''),
    ('../../chiritori-cli/src/main.rs', '.map_while(Result::ok)', '.map_while(Result::ok).map(|l| l.trim().to_string())'),
    ('../../chiritori-cli/src/main.rs', '.map_while(Result::ok)', '.map_while(Result::ok).filter(|l| !l.is_empty())'),
    ('../../chiritori-cli/src/main.rs', '.map_while(Result::ok)', '.map_while(Result::ok).skip(1)'),
    ('../../chiritori-cli/src/main.rs', 'let output = if args.list {', 'let output = if args.list && !args.list_all {'),
    ('../../chiritori-cli/src/main.rs', '} else if args.list_all {', '} else if args.list_all && !args.list_json {'),
    ('../../chiritori-cli/src/main.rs', 'parse::<chrono::DateTime<chrono::Local>>()\n                .unwrap_or(chrono::Local::now())',
     'parse::<chrono::DateTime<chrono::Utc>>()\n                .map(|t| t.with_timezone(&chrono::Local))\n                .unwrap_or(chrono::Local::now())'),
    ('../../chiritori-cli/src/main.rs', 'print!("{}", output);', 'println!("{}", output);'),
    ('../../chiritori-cli/src/main.rs', 'print!("{}", output);', 'print!("{}", output.trim_end());'),
    ('../../chiritori-cli/src/main.rs', 'f.write_all(output.as_bytes())', 'f.write_all(output.trim_start().as_bytes())'),
    ('../../chiritori-cli/src/main.rs', 'tag_name: args.removal_marker_tag_name,', 'tag_name: args.removal_marker_tag_name.to_lowercase(),'),
    ('../../chiritori-cli/src/main.rs', 'time_offset: args.time_limited_time_offset,', 'time_offset: String::from("+00:00"),'),
    ('../../chiritori-cli/src/main.rs', '(args.delimiter_start, args.delimiter_end), config)', '(args.delimiter_start.trim().to_string(), args.delimiter_end), config)'),
]
RULES = [
    (r'(?<![<>=!])<=(?!=)', ['<', '==']), (r'(?<![<>=!-])>=(?!=)', ['>', '==']),
    (r'(?<![<>=!&|-])\s<\s(?![<=])', [' <= ', ' > ']), (r'(?<![<>=!&|-])\s>\s(?![>=])', [' >= ', ' < ']),
    (r'==', ['!=']), (r'!=', ['==']), (r'&&', ['||']), (r'\|\|', ['&&']),
    (r'\+ 1\b', ['- 1', '+ 0', '+ 2']), (r'- 1\b', ['+ 1', '- 0', '- 2']), (r'\btrue\b', ['false']), (r'\bfalse\b', ['true']),
    (r'\.min\(', ['.max(']), (r'\.max\(', ['.min(']), (r'\.start\b', ['.end']), (r'\.end\b', ['.start']),
    (r'\bbyte_start\b', ['byte_end', 'start']), (r'\bbyte_end\b', ['byte_start', 'end']),
    (r"b' '", ["b'\\t'"]), (r"b'\\t'", ["b' '"]), (r"b'\\n'", ["b' '"]), (r"' '", ["'\\n'"]), (r"'\\n'", ["' '"]),
    (r'\.is_none\(\)', ['.is_some()']), (r'\.is_some\(\)', ['.is_none()']), (r'\.is_empty\(\)', ['.is_empty() == false']),
    (r'\bSome\((\w+)\) =>', None), (r'\.rev\(\)', ['']), (r'\bsaturating_sub\b', ['wrapping_sub']),
    (r'unwrap_or\(0\)', ['unwrap_or(1)']), (r'\bcontinue;', ['break;']),
    (r'pause_on_char', None), (r'\bNone => 0\b', ['None => 1']), (r'\.any\(', ['.all(']), (r'\.iter\(\)\.find\(', None),
]


def sh(cmd, cwd=None, timeout=600, env=None):
    try:
        r = subprocess.run(cmd, shell=True, cwd=cwd, env=env or ENV, stdout=subprocess.PIPE, stderr=subprocess.STDOUT, timeout=timeout)
        return r.returncode, r.stdout.decode(errors='replace')
    except subprocess.TimeoutExpired:
        return 124, 'timeout'


def mutants_of(path, text):
    body = text.split('#[cfg(test)]')[0]
    out = []
    lines = body.split('\n')
    for ln, line in enumerate(lines):
        code = line.split('//')[0]
        if not code.strip() or code.strip().startswith(('use ', '#[', 'pub mod', 'mod ')):
            continue
        for pat, repls in RULES:
            if repls is None:
                continue
            for m in re.finditer(pat, code):
                for r in repls:
                    new = code[:m.start()] + r + code[m.end():] + line[len(code):]
                    if new != line:
                        out.append((ln, line, new, f'{m.group(0).strip()} -> {r.strip()}'))
    depth_ok = lambda t: t.count('(') == t.count(')') and t.count('{') == t.count('}') and t.count('[') == t.count(']')
    for ln, line in enumerate(lines):
        t = line.strip()
        if (t.endswith(';') and depth_ok(t) and not t.startswith(('let ', 'use ', 'return', 'break', 'continue', 'pub ', 'const ', 'type ', '//', 'fn ', 'extern '))
                and not t.startswith('}') and (ln == 0 or lines[ln - 1].rstrip().endswith(('{', ';', '}')))):
            out.append((ln, line, '', 'delete statement: ' + t[:60]))
    return out


def main():
    ap = argparse.ArgumentParser()
    ap.add_argument('--files')
    ap.add_argument('--limit', type=int, default=10 ** 9)
    ap.add_argument('--out', default='/tmp/mutsweep.json')
    ap.add_argument('--seed', type=int, default=0)
    ap.add_argument('--only-new', action='store_true', help='only the operators added after the first sweep (statement deletion, explicit, unwrap_or, continue)')
    ap.add_argument('--recheck', help='JSON of an earlier sweep: re-run only the survivors that no check caught, with the current checks (+C04)')
    a = ap.parse_args()
    shutil.rmtree(SCR, ignore_errors=True)
    rc, out = sh(f'git clone -q /repo {SCR}')
    assert rc == 0, out
    files = a.files.split(',') if a.files else list(CHECKS)
    allm = []
    for f in files:
        p = f'{SCR}/chiritori/src/{f}'
        text = open(p).read()
        for ln, old, new, desc in mutants_of(p, text):
            allm.append((f, ln, old, new, desc))
        for ef, eold, enew in EXPLICIT:
            if ef == f:
                eold, enew = eold.replace('\\n', '\n'), enew.replace('\\n', '\n')
                assert text.count(eold) == 1, (ef, eold)
                allm.append((f, -1, eold, enew, 'explicit: ' + eold.strip()[:40] + ' -> ' + enew.strip()[:60]))
    random.Random(a.seed).shuffle(allm)
    allm = allm[:a.limit]
    if a.only_new:
        allm = [m for m in allm if m[4].startswith(('delete statement', 'explicit', 'unwrap_or', 'continue'))]
    if a.recheck:
        prev = json.load(open(a.recheck))
        want = {(r['file'], r['line'], r['new']) for r in prev if r['suite'] == 'survived' and not r.get('caught')}
        allm = [m for m in allm if (m[0], m[1] + 1, m[3].strip()) in want]
        for f in CHECKS:
            if 'C04' not in CHECKS[f]:
                CHECKS[f] = [c for c in CHECKS[f] if c != 'C01'] + ['C04']
    print(f'{len(allm)} mutants', flush=True)
    res = []
    rc, out = sh('cargo test --workspace --offline 2>&1 | tail -3', cwd=SCR)  # warm build
    for k, (f, ln, old, new, desc) in enumerate(allm):
        p = f'{SCR}/chiritori/src/{f}'
        text = open(p).read()
        if ln < 0:
            open(p, 'w').write(text.replace(old, new))
        else:
            lines = text.split('\n')
            assert lines[ln] == old
            lines[ln] = new
            open(p, 'w').write('\n'.join(lines))
        rec = dict(file=f, line=ln + 1, change=desc, old=old.strip(), new=new.strip())
        try:
            rc, out = sh('timeout 120 cargo test --workspace --offline 2>&1 | grep -E "^test result|^error|FAILED|panicked" | head -5', cwd=SCR, timeout=400)
            killed = 'error' in out or 'FAILED' in out or 'timeout' in out or '71 passed' not in out
            rec['suite'] = 'killed' if killed else 'survived'
            if not killed:
                env = dict(os.environ, VERIF_REPO=SCR, VERIF_BUILD=BUILD, VERIF_WORKERS='8', VERIF_EVIDENCE_DIR=BUILD + '/evidence')
                rec['checks'] = {}
                for c in CHECKS[f]:
                    rc, o = sh(f'./check {c} --tier quick > /tmp/sweep.last 2>&1', cwd='/verif', env=env, timeout=1200)
                    rec['checks'][c] = rc
                    if rc == 1:
                        break
                rec['caught'] = any(v == 1 for v in rec['checks'].values())
                print(f'[{k + 1}/{len(allm)}] {f}:{ln + 1} {desc}: survived the suite; checks {rec["checks"]}', flush=True)
        finally:
            open(p, 'w').write(text)
        res.append(rec)
        json.dump(res, open(a.out, 'w'), indent=1)
    surv = [r for r in res if r['suite'] == 'survived']
    print(f'{len(res)} mutants, {len(surv)} survived the suite, {sum(1 for r in surv if r["caught"])} of those caught by the mapped checks')
    for r in surv:
        if not r['caught']:
            print('  NOT CAUGHT', r['file'], r['line'], r['change'], '|', r['new'], r['checks'])


if __name__ == '__main__':
    main()
