#!/usr/bin/env python3
"""Seeded-change bookkeeping.
  seed.py verify <mutant dir> <property> <name>   confirm (scratch worktree of /repo HEAD): patch applies, compiles, suite passes,
                                                  demo fails with / passes without; then store under /verif/seeded/<name>/
  seed.py run <name> [checks...]                  apply to /repo, run the quick checks, undo, record which checks caught it
"""
import sys, os, subprocess, json, shutil, time, glob, re

VERIF = '/verif'
REPO = '/repo'
WT = os.environ.get('SEED_WT', '/tmp/wt/verify')
ENV = dict(os.environ, CARGO_NET_OFFLINE='true', CARGO_TARGET_DIR=WT + '-target')


def sh(cmd, cwd=None, env=None, timeout=1800):
    r = subprocess.run(cmd, shell=True, cwd=cwd, env=env or ENV, stdout=subprocess.PIPE, stderr=subprocess.STDOUT, timeout=timeout)
    return r.returncode, r.stdout.decode(errors='replace')


def verify(src, prop, name, crate='chiritori'):
    if os.path.exists(WT):
        sh(f'git -C {REPO} worktree remove --force {WT}')
    rc, out = sh(f'git -C {REPO} worktree add -q --detach {WT} HEAD')
    assert rc == 0, out
    res = dict(property=prop, source=src)
    try:
        demo = [f for f in glob.glob(src + '/*') if f.endswith('.rs')]
        assert len(demo) == 1, demo
        os.makedirs(WT + f'/{crate}/tests', exist_ok=True)
        shutil.copy(demo[0], WT + f'/{crate}/tests/demo.rs')
        rc0, out0 = sh(f'cargo test -p {crate} --offline --test demo 2>&1 | tail -15', cwd=WT)
        res['demo_without_patch'] = 'pass' if 'test result: ok' in out0 else 'FAIL'
        rc, out = sh(f'git apply --3way {src}/patch.diff 2>&1 || git apply {src}/patch.diff', cwd=WT)
        res['patch_applies'] = rc == 0
        if rc != 0:
            res['apply_output'] = out[-800:]
            return res
        rc1, out1 = sh(f'cargo test -p {crate} --offline --test demo 2>&1 | tail -25', cwd=WT)
        res['demo_with_patch'] = 'fail' if ('test result: FAILED' in out1 or 'panicked' in out1) and 'could not compile' not in out1 else 'PASS-OR-BROKEN'
        res['demo_with_patch_tail'] = out1[-600:]
        os.remove(WT + f'/{crate}/tests/demo.rs')
        rc2, out2 = sh('cargo test --workspace --no-fail-fast --offline 2>&1 | grep -E "^test result|error(\\[|:)|FAILED" | head', cwd=WT)
        res['suite_with_patch'] = 'pass' if 'FAILED' not in out2 and 'error' not in out2 and '71 passed' in out2 else 'FAIL: ' + out2[-300:]
        rc3, diff = sh('git diff HEAD -- chiritori/src chiritori-cli/src', cwd=WT)
        res['diff'] = diff
    finally:
        sh(f'git -C {REPO} worktree remove --force {WT}')
    okv = res.get('demo_without_patch') == 'pass' and res.get('demo_with_patch') == 'fail' and res.get('suite_with_patch') == 'pass'
    res['confirmed'] = okv
    if okv:
        d = f'{VERIF}/seeded/{name}'
        os.makedirs(d, exist_ok=True)
        open(d + '/patch.diff', 'w').write(res.pop('diff'))
        shutil.copy(demo[0], d + '/demo.rs')
        if os.path.exists(src + '/README.md'):
            shutil.copy(src + '/README.md', d + '/README.md')
        head = sh(f'git -C {REPO} rev-parse --short HEAD')[1].strip()
        meta = dict(breaks_property=prop, name=name, base_commit=head,
                    needs=open(src + '/README.md').read()[:1500] if os.path.exists(src + '/README.md') else '',
                    confirmed=dict(demo_without_patch='pass', demo_with_patch='fail', existing_suite_with_patch='pass (71 tests)',
                                   how=f'scratch worktree of /repo HEAD; demo copied to {crate}/tests/demo.rs; cargo test -p {crate} --offline --test demo; cargo test --workspace --offline'),
                    detected_by={})
        json.dump(meta, open(d + '/meta.json', 'w'), indent=1)
    res.pop('diff', None)
    return res


def run(name, checks):
    global REPO
    d = f'{VERIF}/seeded/{name}'
    meta = json.load(open(d + '/meta.json'))
    env = dict(os.environ, VERIF_EVIDENCE_DIR='/tmp/seed-evidence')
    if os.environ.get('SEED_SCRATCH'):
        # work on a scratch clone of /repo (VERIF_REPO / VERIF_BUILD point the checks at it): /repo itself stays untouched
        REPO = os.environ['SEED_SCRATCH']
        if not os.path.isdir(REPO + '/.git'):
            rc, out = sh(f'git clone -q /repo {REPO}')
            assert rc == 0, out
        sh(f'git -C {REPO} fetch -q /repo HEAD && git -C {REPO} checkout -q --detach FETCH_HEAD')
        env.update(VERIF_REPO=REPO, VERIF_BUILD=REPO + '-build')
    rc, out = sh(f'git -C {REPO} status --porcelain')
    assert out.strip() == '', 'repo not clean: ' + out
    rc, out = sh(f'git -C {REPO} apply {d}/patch.diff')
    assert rc == 0, out
    results = {}
    try:
        for c in checks:
            t0 = time.time()
            rc, out = sh(f'./check {c} --tier quick', cwd=VERIF, env=env)
            viol = [l for l in out.split('\n') if l.startswith('VIOLATION')]
            detail = [l.strip() for l in out.split('\n') if l.startswith('  ') and 'input=' in l][:2]
            results[c] = dict(exit=rc, violations=len(viol), wall_s=round(time.time() - t0, 1), detail=detail,
                              tail=out.strip().split('\n')[-3:] if rc not in (0, 1) else [])
            print(f'  {name} vs {c}: exit {rc}, {len(viol)} VIOLATION lines, {time.time() - t0:.0f}s', flush=True)
            for x in detail[:1]:
                print('     ', x[:300])
            if rc not in (0, 1):
                print('     ', '\n      '.join(out.strip().split('\n')[-4:]))
    finally:
        sh(f'git -C {REPO} checkout -- .')
    meta['detected_by'].update(results)
    json.dump(meta, open(d + '/meta.json', 'w'), indent=1)
    return results


if __name__ == '__main__':
    if sys.argv[1] == 'verify':
        r = verify(sys.argv[2], sys.argv[3], sys.argv[4], *(sys.argv[5:6]))
        print(json.dumps({k: v for k, v in r.items() if k != 'demo_with_patch_tail'}, indent=1))
        if not r.get('confirmed'):
            print(r.get('demo_with_patch_tail', ''))
    elif sys.argv[1] == 'run':
        run(sys.argv[2], sys.argv[3:])
