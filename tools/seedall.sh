#!/bin/bash
# tools/seedall.sh [pattern]: run every seeded change against the check of its own property on a scratch clone of /repo (never /repo itself)
cd /verif
export SEED_SCRATCH=${SEED_SCRATCH:-/tmp/seedrepo}
for d in seeded/C*-m*; do
  n=$(basename $d); p=${n%-*}
  case "$n" in *$1*) ;; *) continue;; esac
  python3 tools/seed.py run $n $p 2>&1 | grep -E " vs " 
done
