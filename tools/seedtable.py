#!/usr/bin/env python3
"""prints the seeded-change table for DESIGN.md §11 from /verif/seeded/*/meta.json"""
import json, glob, re, os
rows = []
for f in sorted(glob.glob('/verif/seeded/C*/meta.json')):
    m = json.load(open(f))
    d = os.path.dirname(f)
    patch = open(d + '/patch.diff').read()
    files = sorted(set(re.findall(r'^\+\+\+ b/(\S+)', patch, re.M)))
    files = [x.replace('chiritori/src/', '').replace('chiritori-cli/src/', 'cli:') for x in files]
    caught = [k for k, v in m['detected_by'].items() if v['exit'] == 1]
    missed = [k for k, v in m['detected_by'].items() if v['exit'] != 1]
    how = ''
    for k in caught:
        det = ' '.join(m['detected_by'][k].get('detail', []))
        if 'native replay of an unencoded path' in det:
            how = ' (native sampling)'
    rows.append((m['name'], m['breaks_property'], ', '.join(files), ', '.join(caught) + how, ', '.join(missed)))
print('| change | written against | files touched | caught by (quick tier, exit 1) | not caught by |')
print('|---|---|---|---|---|')
for r in rows:
    print('| ' + ' | '.join(r) + ' |')
print()
print(f'{len(rows)} changes; {sum(1 for r in rows if r[1] in r[3])} caught by the check of their own property.')
