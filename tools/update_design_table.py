#!/usr/bin/env python3
"""replace the seeded-change table of DESIGN.md §11 by the output of tools/seedtable.py"""
import subprocess, re
t = subprocess.run(['python3', '/verif/tools/seedtable.py'], stdout=subprocess.PIPE).stdout.decode()
p = '/verif/DESIGN.md'
s = open(p).read()
i = s.index('| change | written against | files touched |')
j = s.index('caught by the check of their own property.', i) + len('caught by the check of their own property.')
s = s[:i] + t.strip() + s[j:]
open(p, 'w').write(s)
print(t.strip().split('\n')[-1])
